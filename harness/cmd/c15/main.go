// C15 — SBOMs the library writes can be read back by the library.
//
// Space (finite, enumerated completely):
//
//	pool P   = every PURL type some built-in extractor emits (purl.TypeXxx constants referenced
//	           below /extractor, united with the types seen in the C14 fixture harvest) x the
//	           shapes of shapes(), restricted to PURLs the third-party purl library itself accepts,
//	           plus one package without PURL;
//	pool Q   = the bare shape of every type, every shape for types generic and deb, the PURL-less package;
//	quick    : inventories of size 0, size 1 over P, size 2 (ordered, with repetition) over Q;
//	thorough : size 0..1 over P, size 2 over P, size 3 over Q;
//	each x {spdx23-json -> x.spdx.json, spdx23-yaml -> x.spdx.yml, spdx23-tag-value -> x.spdx,
//	        cdx-json -> x.cdx.json, cdx-xml -> x.cdx.xml}.
//
// Oracle: converter.ToSPDX23 / ToCDX -> binary/spdx.Write23 / binary/cdx.Write into a fresh
// directory -> filesystem.Run with the sbom/spdx and sbom/cdx extractors over that directory.
// Reference R = multiset of ToPURL().String() over the INVENTORY's packages that have a
// package URL (minus the exclusion of DC1). The multiset read back must equal R. To name the
// cause the comparison is split in two, separately keyed halves whose conjunction is exactly
// "read back == R":
//
//	export:*     R  vs  PURL strings present in the in-memory document that is written
//	roundtrip:*  PURL strings of that document  vs  ToPURL().String() of the packages returned
//
// All sides are compared in the canonical form purl.String(purl.FromString(s)) when s parses
// (raw otherwise).
//
// Don't-care cells:
//
//	DC1  SPDX only: a package whose PURL has an empty name or an empty version is not expected
//	     back. This is the one exclusion the converter states itself (converter/converter.go,
//	     ToSPDX23: `log.Warnf("Package %v PURL name or version empty, skipping", pkg)`); the other
//	     stated skip ("has no PURL, skipping") concerns packages that are not in R anyway.
//	     ToCDX states no exclusion: every PURL-bearing package is expected back. No exclusion is
//	     inferred from behaviour.
//	DC2  names, versions, locations, ids, timestamps, the SPDX "main" package, CPE-only entries:
//	     only PURLs of the returned packages are compared; packages returned without PURL are ignored.
//	DC3  order of the returned packages (multiset).
//	     (canonical form = what the third-party packageurl-go library parses and prints, computed without
//	     purl.String / purl.FromString; all components incl. every qualifier value are compared)
//	DC4  canonicalisation differences (type/namespace/name case rules of the type, qualifier order,
//	     dropped empty qualifiers): both sides are canonicalised with the library's own parser.
//	DC5  extractor/plugin status and errors of the scan: only the package list is judged (an
//	     unreadable file shows up as lost PURLs unless the document holds none).
//	DC6  PURLs the third-party parser rejects as spec-invalid (conan namespace without channel,
//	     swift without namespace/version, cran without version) are not in the pool.
package main

import (
	"context"
	"encoding/json"
	"fmt"
	"os"
	"path/filepath"
	"regexp"
	"sort"
	"strings"
	"sync"
	"sync/atomic"
	"time"

	"github.com/CycloneDX/cyclonedx-go"
	scalibr "github.com/google/osv-scalibr"
	"github.com/google/osv-scalibr/binary/cdx"
	"github.com/google/osv-scalibr/binary/cli"
	"github.com/google/osv-scalibr/binary/spdx"
	"github.com/google/osv-scalibr/converter"
	"github.com/google/osv-scalibr/extractor"
	"github.com/google/osv-scalibr/extractor/filesystem"
	cdxe "github.com/google/osv-scalibr/extractor/filesystem/sbom/cdx"
	spdxe "github.com/google/osv-scalibr/extractor/filesystem/sbom/spdx"
	scalibrfs "github.com/google/osv-scalibr/fs"
	"github.com/google/osv-scalibr/inventory"
	"github.com/google/osv-scalibr/plugin"
	"github.com/google/osv-scalibr/purl"
	"github.com/google/osv-scalibr/stats"
	packageurl "github.com/package-url/packageurl-go"
	"verif/ev"
	"verif/harvest"
	"verif/scankit"
)

type format struct{ Name, File string }

var formats = []format{
	{"spdx23-json", "x.spdx.json"},
	{"spdx23-yaml", "x.spdx.yml"},
	{"spdx23-tag-value", "x.spdx"},
	{"cdx-json", "x.cdx.json"},
	{"cdx-xml", "x.cdx.xml"},
}

// altName is an alternative output file name an importer accepts.
type altName struct{ File, Why string }

// altNames: per output format, the other spellings of the file name that the matching importer
// accepts. "tested" = the spelling (or its pattern with exactly this casing rule) is in the
// extractor's own FileRequired test table; "by analogy" = same pattern family, other casing
// (see the assumption recorded in the evidence file). Not claimed: .spdx.yaml (not in
// extensionHandlers), *.bom.json (tested as NOT required), .spdx.rdf (we do not write RDF).
var altNames = map[string][]altName{
	"cdx-json": {
		{"bom.json", "tested: cdx_test.go bom.json"},
		{"sbom.cdx.JSON", "tested: cdx_test.go sbom.cdx.JSON"},
		{"sbom.cDX.json", "tested: cdx_test.go sbom.cDX.json"},
		{"sub.dir-name.cdx.json", "tested pattern *.cdx.json"},
		{"BOM.json", "by analogy: bom.json, case-insensitive like *.cdx.json"},
		{"Bom.Json", "by analogy: bom.json, case-insensitive like *.cdx.json"},
	},
	"cdx-xml": {
		{"bom.xml", "tested: cdx_test.go bom.xml"},
		{"sbom.cdx.xml", "tested: cdx_test.go sbom.cdx.xml"},
		{"sbom.CDX.XML", "by analogy: *.cdx.xml, case-insensitive like *.cdx.json"},
		{"BOM.XML", "by analogy: bom.xml, case-insensitive like *.cdx.json"},
		{"bom.XML", "by analogy: bom.xml, case-insensitive like *.cdx.json"},
	},
	"spdx23-json": {
		{"sbom.spdx.json", "tested: spdx_test.go sbom.spdx.json"},
		{"sbom.SPDX.JSON", "by analogy: *.spdx.json, case-insensitive like *.spdx"},
	},
	"spdx23-yaml": {
		{"sbom.spdx.yml", "tested: spdx_test.go sbom.spdx.yml"},
		{"sbom.Spdx.YML", "by analogy: *.spdx.yml, case-insensitive like *.spdx"},
	},
	"spdx23-tag-value": {
		{"sbom.spdx", "tested: spdx_test.go sbom.spdx"},
		{"sbom.SPDX", "tested: spdx_test.go sbom.SPDX"},
		{"sbom.SpDx", "tested: spdx_test.go sbom.SpDx"},
	},
}

// poolItem is one package of the pool. U == nil: the package without PURL.
type poolItem struct {
	Shape string           `json:"shape"`
	Type  string           `json:"type"`
	U     *purl.PackageURL `json:"purl"`
	Loc   string           `json:"location"`
	// Meta "cdx" / "spdx": the package is one the library's own SBOM extractor emitted (re-export
	// of an imported SBOM): Extractor = sbom/cdx or sbom/spdx, Metadata = its Metadata{PURL, CPEs}.
	Meta string   `json:"sbom_metadata,omitempty"`
	CPEs []string `json:"cpes,omitempty"`
	// PkgFields != "": Package.Name / Package.Version differ from the PURL's although ToPURL is
	// complete (the PURL is held in the metadata): "as-spdx-import" (Name = PURL name, Version
	// empty: what sbom/spdx emits), "empty" (both empty), "different" (unrelated strings),
	// "name-empty", "version-empty".
	PkgFields string `json:"package_fields,omitempty"`
}

const cpe = "cpe:2.3:a:vendor:pkg:1.0:*:*:*:*:*:*:*"

// reserved: every character class that is reserved somewhere in a PURL or in URL encoding.
const reserved = "a+b c%d&e=f?g#h@i:jé世"

const specialName = `a b+c@d&e<f"g:h#i`

func shapes(t string) []poolItem {
	q := func(kv ...string) purl.Qualifiers {
		var out purl.Qualifiers
		for i := 0; i+1 < len(kv); i += 2 {
			out = append(out, packageurl.Qualifier{Key: kv[i], Value: kv[i+1]})
		}
		return out
	}
	mk := func(shape string, u purl.PackageURL) poolItem {
		u.Type = t
		return poolItem{Shape: shape, Type: t, U: &u, Loc: "dir/" + shape + ".lock"}
	}
	out := []poolItem{
		mk("bare", purl.PackageURL{Name: "pkg", Version: "1.0"}),
		mk("namespace", purl.PackageURL{Namespace: "ns", Name: "pkg", Version: "1.0"}),
		mk("namespace-multi", purl.PackageURL{Namespace: "ns1/ns2", Name: "pkg", Version: "1.0"}),
		mk("qualifiers", purl.PackageURL{Name: "pkg", Version: "1.0", Qualifiers: q("distro", "d-1", "arch", "x86")}),
		mk("qualifier-escaped", purl.PackageURL{Name: "pkg", Version: "1.0", Qualifiers: q("distro", "a b&c=d/é")}),
		mk("subpath", purl.PackageURL{Name: "pkg", Version: "1.0", Subpath: "sub/path"}),
		mk("name-special", purl.PackageURL{Name: specialName, Version: "1.0"}),
		mk("version-special", purl.PackageURL{Name: "pkg", Version: "1~rc:2+3"}),
		mk("name-case", purl.PackageURL{Name: "Foo_Bar.Baz", Version: "1.0"}),
		mk("namespace-case-space", purl.PackageURL{Namespace: "My Ns", Name: "pkg", Version: "1.0"}),
		mk("no-version", purl.PackageURL{Name: "pkg"}),
		mk("qualifiers-reserved", purl.PackageURL{Name: "pkg", Version: "1.0", Qualifiers: q(
			"sourceversion", "12.2.0-14+deb12u1", "sourcerpm", "perl-Text-Tabs+Wrap-2013.0523-460.el9.src.rpm",
			"download_url", "https://x.y/a+b?c=d&e=f#g", "classifier", reserved, "epoch", "1")}),
		mk("namespace-reserved", purl.PackageURL{Namespace: "g++/" + reserved, Name: "pkg", Version: "1.0"}),
		mk("subpath-reserved", purl.PackageURL{Name: "pkg", Version: "1.0", Subpath: "c++/" + reserved}),
		mk("everything", purl.PackageURL{Namespace: "Ns1/n s2", Name: specialName, Version: "1~rc:2+3", Qualifiers: q("repository_url", "https://x.y/z?a=b", "arch", "x86"), Subpath: "sub dir/p"}),
	}
	out[6].Loc = `dir/file <1> & "2".lock`
	return out
}

// structuralShapes: packages whose name (and version) coincide with names the exporters use for
// their own structural elements: the SPDX root package ("main", version "0"), the default SPDX
// document name, the tool/creator name, SPDX ids and the SPDX special values.
func structuralShapes(t string) []poolItem {
	var out []poolItem
	for _, nv := range [][3]string{
		{"main-0", "main", "0"}, {"main", "main", "1.0"}, {"scalibr", "SCALIBR", "1.0"},
		{"document-name", "SCALIBR-generated SPDX", "1.0"}, {"spdx-document-id", "SPDXRef-Document", "1.0"},
		{"document", "DOCUMENT", "1.0"}, {"noassertion", "NOASSERTION", "NOASSERTION"}, {"none", "NONE", "1.0"},
	} {
		out = append(out, poolItem{Shape: "name-structural-" + nv[0], Type: t, U: &purl.PackageURL{Type: t, Name: nv[1], Version: nv[2]}, Loc: "dir/structural.lock"})
	}
	return out
}

// repaired makes a shape valid for types with purl-spec rules of their own (DC6), or returns nil.
func repaired(p poolItem) *poolItem {
	valid := func(u *purl.PackageURL) bool {
		_, err := packageurl.FromString(u.String())
		return err == nil
	}
	if valid(p.U) {
		return &p
	}
	u := *p.U
	u.Qualifiers = append(purl.Qualifiers(nil), p.U.Qualifiers...)
	if u.Version == "" {
		return nil // "no-version" has no valid form for cran / swift
	}
	switch p.Type {
	case purl.TypeConan:
		if u.Namespace != "" {
			u.Qualifiers = append(u.Qualifiers, packageurl.Qualifier{Key: "channel", Value: "stable"})
		}
	case purl.TypeSwift:
		if u.Namespace == "" {
			u.Namespace = "github.com/owner"
		}
	}
	if valid(&u) {
		p.U = &u
		return &p
	}
	return nil
}

var poolEx = harvest.PoolExtractor{}

func (p poolItem) pkg() *extractor.Package {
	var up *purl.PackageURL
	name, version := "cpe only", "0.2"
	if p.U != nil {
		u := *p.U
		up, name, version = &u, u.Name, u.Version
	}
	switch p.PkgFields {
	case "as-spdx-import", "version-empty":
		version = ""
	case "empty":
		name, version = "", ""
	case "name-empty":
		name = ""
	case "different":
		name, version = "display name <other>", "9.9-display"
	case "version-range":
		version = ">=2.0,<3"
	case "version-other":
		version = "9.9"
	case "version-reserved":
		version = "1 2+3%4&5=6?7#8@9:é"
	}
	switch p.Meta {
	case "cdx":
		return &extractor.Package{Name: name, Version: version, Locations: []string{"dir/in.cdx.json"}, Extractor: cdxe.New(), Metadata: &cdxe.Metadata{PURL: up, CPEs: append([]string(nil), p.CPEs...)}}
	case "spdx":
		return &extractor.Package{Name: name, Version: version, Locations: []string{"dir/in.spdx.json"}, Extractor: spdxe.New(), Metadata: &spdxe.Metadata{PURL: up, CPEs: append([]string(nil), p.CPEs...)}}
	}
	if p.U == nil {
		return &extractor.Package{Name: "no purl <&>", Version: "0.1", Locations: []string{"dir/nopurl"}, Extractor: poolEx}
	}
	u := *p.U
	loc := p.Loc
	if loc == "" {
		loc = "dir/" + p.Shape + ".lock"
	}
	return &extractor.Package{Name: name, Version: version, Locations: []string{loc}, Extractor: poolEx, Metadata: &u}
}

// Canonical forms are computed with the third-party packageurl-go library directly, never with
// purl.String / purl.FromString (the code under test): every component, including each qualifier
// value, namespace and subpath, takes part in the comparison.

// canon: canonical form of a PURL string found in a written document.
func canon(s string) string {
	if u, err := packageurl.FromString(s); err == nil {
		return u.ToString()
	}
	return s
}

// canonStruct: canonical form of a PURL struct (an inventory package's, or a re-imported one's).
func canonStruct(u purl.PackageURL) string {
	l := packageurl.PackageURL{Type: u.Type, Namespace: u.Namespace, Name: u.Name, Version: u.Version, Qualifiers: packageurl.Qualifiers(u.Qualifiers), Subpath: u.Subpath}
	return canon(l.ToString())
}

type outcome struct {
	Inv       []string `json:"purls_of_inventory_expected_back"`
	Expected  []string `json:"purls_in_written_document"`
	Got       []string `json:"purls_read_back"`
	ExpLost   []string `json:"export_lost"`     // in the inventory, not in the document
	ExpSpur   []string `json:"export_spurious"` // in the document, not in the inventory
	Lost      []string `json:"lost"`            // in the document, not read back
	Spurious  []string `json:"spurious"`        // read back, not in the document
	WriteErr  string   `json:"write_error,omitempty"`
	ScanErr   string   `json:"scan_error,omitempty"`
	ReadFail  string   `json:"sbom_extractor_failure,omitempty"`
	Panic     string   `json:"panic,omitempty"`
	PanicSite string   `json:"-"`
}

func (o *outcome) ok() bool {
	return o.WriteErr == "" && o.Panic == "" && o.rtOK() && o.exOK()
}

// rtFailed: the document -> file -> importer half failed (or nothing could be written).
func (o *outcome) rtFailed() bool { return o.WriteErr != "" || o.Panic != "" || !o.rtOK() }

func (o *outcome) rtOK() bool { return len(o.Lost) == 0 && len(o.Spurious) == 0 }
func (o *outcome) exOK() bool { return len(o.ExpLost) == 0 && len(o.ExpSpur) == 0 }

func multisetDiff(a, b []string) (onlyA []string) {
	cnt := map[string]int{}
	for _, s := range b {
		cnt[s]++
	}
	for _, s := range a {
		if cnt[s] > 0 {
			cnt[s]--
		} else {
			onlyA = append(onlyA, s)
		}
	}
	sort.Strings(onlyA)
	return onlyA
}

func cdxPurls(cs *[]cyclonedx.Component, out *[]string) {
	if cs == nil {
		return
	}
	for _, c := range *cs {
		if c.PackageURL != "" {
			*out = append(*out, c.PackageURL)
		}
		cdxPurls(c.Components, out)
	}
}

// roundTrip exports the inventory in one format into dir and scans dir.
// exportDirect converts the inventory and writes it with the library's writer; it returns the
// PURL strings present in the in-memory document.
func exportDirect(inv []poolItem, f format, path string) (raw []string, err error) {
	return exportResult(scanResultOf(inv), f, path)
}

func exportResult(res *scalibr.ScanResult, f format, path string) (raw []string, err error) {
	if strings.HasPrefix(f.Name, "spdx23") {
		doc := converter.ToSPDX23(res, converter.SPDXConfig{})
		for _, sp := range doc.Packages {
			for _, r := range sp.PackageExternalReferences {
				if r.RefType == "purl" {
					raw = append(raw, r.Locator)
				}
			}
		}
		return raw, spdx.Write23(doc, path, f.Name)
	}
	bom := converter.ToCDX(res, converter.CDXConfig{})
	cdxPurls(bom.Components, &raw)
	return raw, cdx.Write(bom, path, f.Name)
}

// expectedBack is the reference R: canonical PURLs of the inventory's PURL-bearing packages (DC1).
func expectedBack(inv []poolItem, f format) []string {
	isSPDX := strings.HasPrefix(f.Name, "spdx23")
	out := []string{}
	for _, p := range inv {
		if p.U == nil {
			continue
		}
		if isSPDX && (p.U.Name == "" || p.U.Version == "") {
			continue // DC1: the exclusion ToSPDX23 states
		}
		out = append(out, canonStruct(*p.U))
	}
	sort.Strings(out)
	return out
}

// roundTrip exports the inventory in one format into dir and scans dir.
func roundTrip(inv []poolItem, f format, dir string) (o outcome) {
	return roundTripOver(nil, inv, f, dir)
}

// roundTripOver first writes the inventory `over` (if any) to the same path: the export under
// test then replaces an existing report.
func roundTripOver(over, inv []poolItem, f format, dir string) (o outcome) {
	o.Inv = expectedBack(inv, f)
	pv, st := ev.Recover(func() {
		if err := os.MkdirAll(dir, 0o755); err != nil {
			o.WriteErr = "harness: " + err.Error()
			return
		}
		defer os.RemoveAll(dir)
		path := filepath.Join(dir, f.File)
		if over != nil {
			if _, err := exportDirect(over, f, path); err != nil {
				o.WriteErr = "first write: " + err.Error()
				return
			}
		}
		raw, err := exportDirect(inv, f, path)
		if err != nil {
			o.WriteErr = err.Error()
		}
		for _, s := range raw {
			o.Expected = append(o.Expected, canon(s))
		}
		sort.Strings(o.Expected)
		if o.WriteErr != "" {
			return
		}
		got, sts, err := filesystem.Run(context.Background(), &filesystem.Config{
			Extractors: []filesystem.Extractor{spdxe.New(), cdxe.New()},
			ScanRoots:  scalibrfs.RealFSScanRoots(dir),
			Stats:      stats.NoopCollector{},
		})
		if err != nil {
			o.ScanErr = err.Error()
		}
		for _, st := range sts {
			if st != nil && st.Status != nil && st.Status.Status != plugin.ScanStatusSucceeded && st.Status.FailureReason != "" {
				o.ReadFail += st.Name + ": " + st.Status.FailureReason + "; "
			}
		}
		for _, p := range got.Packages {
			if p == nil || p.Extractor == nil {
				continue
			}
			if u := p.Extractor.ToPURL(p); u != nil {
				o.Got = append(o.Got, canonStruct(*u))
			}
		}
		sort.Strings(o.Got)
	})
	if pv != nil {
		o.Panic = fmt.Sprint(pv)
		o.PanicSite = ev.PanicSite(st)
	}
	o.Lost = multisetDiff(o.Expected, o.Got)
	o.Spurious = multisetDiff(o.Got, o.Expected)
	if o.Panic == "" {
		o.ExpLost = multisetDiff(o.Inv, o.Expected)
		o.ExpSpur = multisetDiff(o.Expected, o.Inv)
	}
	return o
}

// importDir scans dir with fresh SBOM extractors and returns the packages.
func importDir(dir string) []*extractor.Package {
	got, _, _ := filesystem.Run(context.Background(), &filesystem.Config{
		Extractors: []filesystem.Extractor{spdxe.New(), cdxe.New()},
		ScanRoots:  scalibrfs.RealFSScanRoots(dir), Stats: stats.NoopCollector{},
	})
	return got.Packages
}

// purlsBack: canonical PURLs of packages; forSPDX applies DC1 (PURL name and version needed).
func purlsBack(pkgs []*extractor.Package, forSPDX bool) []string {
	out := []string{}
	for _, p := range pkgs {
		if p == nil || p.Extractor == nil {
			continue
		}
		u := p.Extractor.ToPURL(p)
		if u == nil || (forSPDX && (u.Name == "" || u.Version == "")) {
			continue
		}
		out = append(out, canonStruct(*u))
	}
	sort.Strings(out)
	return out
}

type gen2Result struct {
	Gen1OK   bool     `json:"first_generation_exact"`
	Want     []string `json:"purls_of_first_import_expected_back"`
	Got      []string `json:"purls_of_second_import"`
	Err      string   `json:"error,omitempty"`
	Panic    string   `json:"panic,omitempty"`
	Imported []string `json:"first_import_packages"`
}

// secondGeneration: inventory -> export f1 -> import -> the IMPORTED packages (their real
// extractor, metadata-held PURL, their own Name/Version quirks) are the new inventory -> export f2
// -> import: the PURLs of the first import (DC1 for an SPDX f2) must come back.
func secondGeneration(inv []poolItem, f1, f2 format, dir string) (g gen2Result) {
	defer os.RemoveAll(dir)
	pv, st := ev.Recover(func() {
		d1, d2 := filepath.Join(dir, "g1"), filepath.Join(dir, "g2")
		if err := os.MkdirAll(d1, 0o755); err != nil {
			g.Err = "harness: " + err.Error()
			return
		}
		if err := os.MkdirAll(d2, 0o755); err != nil {
			g.Err = "harness: " + err.Error()
			return
		}
		if _, err := exportDirect(inv, f1, filepath.Join(d1, f1.File)); err != nil {
			return // first generation failing is phase 1's business
		}
		first := importDir(d1)
		got1 := purlsBack(first, false)
		want1 := expectedBack(inv, f1)
		g.Gen1OK = len(multisetDiff(got1, want1)) == 0 && len(multisetDiff(want1, got1)) == 0
		if !g.Gen1OK {
			return
		}
		for _, p := range first {
			g.Imported = append(g.Imported, fmt.Sprintf("%s name=%q version=%q", p.Extractor.Name(), p.Name, p.Version))
		}
		g.Want = purlsBack(first, strings.HasPrefix(f2.Name, "spdx23"))
		res := scanResultOf(nil)
		res.Inventory.Packages = first
		if _, err := exportResult(res, f2, filepath.Join(d2, f2.File)); err != nil {
			g.Err = "second export: " + err.Error()
			return
		}
		g.Got = purlsBack(importDir(d2), false)
	})
	if pv != nil {
		g.Panic = fmt.Sprint(pv) + " at " + ev.PanicSite(st)
	}
	return g
}

func (g *gen2Result) ok() bool {
	if !g.Gen1OK {
		return true
	}
	return g.Err == "" && g.Panic == "" && len(multisetDiff(g.Want, g.Got)) == 0 && len(multisetDiff(g.Got, g.Want)) == 0
}

// cliResult is the outcome of one cli.Flags.WriteScanResults call with several -o items.
type cliResult struct {
	Err    string            `json:"write_error,omitempty"`
	Panic  string            `json:"panic,omitempty"`
	Failed []string          `json:"formats_not_read_back_exactly"`
	Detail map[string]string `json:"detail"`
}

// cliExport writes the inventory the way the scalibr binary does (binary/cli:
// Flags.WriteScanResults with one -o item per format, each file in its own sub-directory) and
// scans every sub-directory: each must give R(format).
func cliExport(inv []poolItem, fmts []int, configured bool, dir string) (c cliResult) {
	c.Detail = map[string]string{}
	defer os.RemoveAll(dir)
	pv, st := ev.Recover(func() {
		fl := &cli.Flags{}
		if configured {
			fl.SPDXDocumentName, fl.SPDXDocumentNamespace, fl.SPDXCreators = "main", "https://example.com/ns/1", "Person:verif,Organization:acme"
			fl.CDXComponentName, fl.CDXComponentVersion, fl.CDXAuthors = "pkg", "1.0", "a,b"
		}
		for k, fi := range fmts {
			d := filepath.Join(dir, fmt.Sprintf("o%d", k))
			if err := os.MkdirAll(d, 0o755); err != nil {
				c.Err = "harness: " + err.Error()
				return
			}
			fl.Output = append(fl.Output, formats[fi].Name+"="+filepath.Join(d, formats[fi].File))
		}
		if err := cli.ValidateFlags(&cli.Flags{Root: "/", Output: fl.Output, SPDXCreators: fl.SPDXCreators}); err != nil && strings.Contains(err.Error(), "output") {
			c.Err = "flags rejected: " + err.Error()
			return
		}
		if err := fl.WriteScanResults(scanResultOf(inv)); err != nil {
			c.Err = err.Error()
		}
		for k, fi := range fmts {
			want := expectedBack(inv, formats[fi])
			got := scanWith([]filesystem.Extractor{spdxe.New(), cdxe.New()}, filepath.Join(dir, fmt.Sprintf("o%d", k)))
			if len(multisetDiff(want, got)) != 0 || len(multisetDiff(got, want)) != 0 {
				c.Failed = append(c.Failed, formats[fi].Name)
				c.Detail[fmt.Sprintf("-o #%d %s", k+1, formats[fi].Name)] = fmt.Sprintf("expected back %q, read back %q", want, got)
			}
		}
	})
	if pv != nil {
		c.Panic = fmt.Sprint(pv) + " at " + ev.PanicSite(st)
	}
	return c
}

func scanResultOf(inv []poolItem) *scalibr.ScanResult {
	pkgs := make([]*extractor.Package, 0, len(inv))
	for _, p := range inv {
		pkgs = append(pkgs, p.pkg())
	}
	return &scalibr.ScanResult{
		Version: "verif", StartTime: time.Unix(1700000000, 0), EndTime: time.Unix(1700000001, 0),
		Status:    &plugin.ScanStatus{Status: plugin.ScanStatusSucceeded},
		Inventory: inventory.Inventory{Packages: pkgs},
	}
}

// scanWith runs one filesystem scan of dir with the given extractor instances and returns the
// canonical PURL multiset of the returned packages.
func scanWith(exs []filesystem.Extractor, dir string) []string {
	got, _, _ := filesystem.Run(context.Background(), &filesystem.Config{
		Extractors: exs, ScanRoots: scalibrfs.RealFSScanRoots(dir), Stats: stats.NoopCollector{},
	})
	out := []string{}
	for _, p := range got.Packages {
		if p == nil || p.Extractor == nil {
			continue
		}
		if u := p.Extractor.ToPURL(p); u != nil {
			out = append(out, canonStruct(*u))
		}
	}
	sort.Strings(out)
	return out
}

// hfile is one exported file of the history phase, alone in its own directory.
type hfile struct {
	Label  string // file name, unique within the case
	Dir    string
	Export int // which export (document object) it serialises
	Copy   int // files with equal Copy are byte-identical
}

// histCase: inventory I1 exported once and written in every serialisation of the family plus a
// byte-identical copy; inventory I2 exported separately. fam is "cdx" or "spdx".
func histFiles(fam string, i1, i2 []poolItem, dir string) ([]hfile, error) {
	var files []hfile
	add := func(label string, export, cp int, write func(path string) error) error {
		d := filepath.Join(dir, fmt.Sprintf("f%d", len(files)))
		if err := os.MkdirAll(d, 0o755); err != nil {
			return err
		}
		if err := write(filepath.Join(d, label)); err != nil {
			return err
		}
		files = append(files, hfile{label, d, export, cp})
		return nil
	}
	cp := func(from string) func(string) error {
		return func(to string) error {
			b, err := os.ReadFile(from)
			if err != nil {
				return err
			}
			return os.WriteFile(to, b, 0o644)
		}
	}
	var err error
	step := func(e error) {
		if err == nil {
			err = e
		}
	}
	if fam == "cdx" {
		b1 := converter.ToCDX(scanResultOf(i1), converter.CDXConfig{})
		b2 := converter.ToCDX(scanResultOf(i2), converter.CDXConfig{})
		step(add("a.cdx.json", 1, 1, func(p string) error { return cdx.Write(b1, p, "cdx-json") }))
		if err == nil {
			step(add("b.cdx.json", 1, 1, cp(filepath.Join(files[0].Dir, files[0].Label))))
		}
		step(add("c.cdx.xml", 1, 2, func(p string) error { return cdx.Write(b1, p, "cdx-xml") }))
		step(add("d.cdx.json", 2, 3, func(p string) error { return cdx.Write(b2, p, "cdx-json") }))
		return files, err
	}
	d1 := converter.ToSPDX23(scanResultOf(i1), converter.SPDXConfig{})
	d2 := converter.ToSPDX23(scanResultOf(i2), converter.SPDXConfig{})
	step(add("a.spdx.json", 1, 1, func(p string) error { return spdx.Write23(d1, p, "spdx23-json") }))
	if err == nil {
		step(add("b.spdx.json", 1, 1, cp(filepath.Join(files[0].Dir, files[0].Label))))
	}
	step(add("c.spdx.yml", 1, 2, func(p string) error { return spdx.Write23(d1, p, "spdx23-yaml") }))
	step(add("d.spdx", 1, 3, func(p string) error { return spdx.Write23(d1, p, "spdx23-tag-value") }))
	step(add("e.spdx.json", 2, 4, func(p string) error { return spdx.Write23(d2, p, "spdx23-json") }))
	return files, err
}

func newImporter(fam string) filesystem.Extractor {
	if fam == "cdx" {
		return cdxe.New()
	}
	return spdxe.New()
}

type histViolation struct {
	Class string
	What  string
	Seq   []string
}

// histRun: every sequence (with repetition) of 2 and of 3 exported files imported one after the
// other by ONE extractor instance must give, at every step, what a fresh instance gives for
// that file; and one scan over all files together must give the sum. seqOnly != nil restricts
// the run to that sequence (replay).
func histRun(fam string, i1, i2 []poolItem, dir string, seqOnly []string) (vs []histViolation, runs int, panicked string) {
	defer os.RemoveAll(dir)
	pv, st := ev.Recover(func() {
		files, err := histFiles(fam, i1, i2, dir)
		if err != nil {
			return // export problems are phase 1's business
		}
		fresh := make([][]string, len(files))
		var all []string
		for i, f := range files {
			fresh[i] = scanWith([]filesystem.Extractor{newImporter(fam)}, f.Dir)
			all = append(all, fresh[i]...)
			runs++
		}
		sort.Strings(all)
		eq := func(a, b []string) bool { return len(multisetDiff(a, b)) == 0 && len(multisetDiff(b, a)) == 0 }
		idx := map[string]int{}
		for i, f := range files {
			idx[f.Label] = i
		}
		try := func(seq []int) {
			inst := newImporter(fam)
			for k, fi := range seq {
				got := scanWith([]filesystem.Extractor{inst}, files[fi].Dir)
				runs++
				if eq(got, fresh[fi]) {
					continue
				}
				class := "after-different-export"
				rank := 0
				for _, pj := range seq[:k] {
					switch {
					case pj == fi && rank < 3:
						class, rank = "same-file-again", 3
					case files[pj].Copy == files[fi].Copy && rank < 2:
						class, rank = "copy-of-earlier-document", 2
					case files[pj].Export == files[fi].Export && rank < 1:
						class, rank = "other-serialisation-of-earlier-export", 1
					}
				}
				var labels []string
				for _, x := range seq {
					labels = append(labels, files[x].Label)
				}
				vs = append(vs, histViolation{class, fmt.Sprintf("one sbom/%s extractor instance importing %q in sequence: import #%d (%s) returned %q, a fresh instance returns %q", fam, labels, k+1, files[fi].Label, got, fresh[fi]), labels})
				return
			}
		}
		if seqOnly != nil {
			if len(seqOnly) == 1 && seqOnly[0] == "*" {
				seqOnly = nil
			} else {
				var seq []int
				for _, l := range seqOnly {
					seq = append(seq, idx[l])
				}
				try(seq)
				return
			}
		}
		n := len(files)
		for a := 0; a < n; a++ {
			for b := 0; b < n; b++ {
				try([]int{a, b})
			}
		}
		for a := 0; a < n; a++ {
			for b := 0; b < n; b++ {
				for c := 0; c < n; c++ {
					try([]int{a, b, c})
				}
			}
		}
		// one scan that meets all files
		got := scanWith([]filesystem.Extractor{newImporter(fam)}, dir)
		runs++
		if !eq(got, all) {
			vs = append(vs, histViolation{"one-scan-several-files", fmt.Sprintf("one scan with sbom/%s over a directory holding %d exported files returned %q, the files scanned separately give %q", fam, len(files), got, all), []string{"*"}})
		}
	})
	if pv != nil {
		panicked = fmt.Sprint(pv) + " at " + ev.PanicSite(st)
	}
	return vs, runs, panicked
}

type cliReplay struct {
	Formats    []string   `json:"output_formats_in_order"`
	Configured bool       `json:"document_flags_set"`
	Inventory  []poolItem `json:"inventory"`
}

type histReplay struct {
	Family string     `json:"importer"`
	I1     []poolItem `json:"inventory_1"`
	I2     []poolItem `json:"inventory_2"`
	Seq    []string   `json:"file_sequence"`
}

type replay struct {
	SecondFormat string      `json:"second_generation_format,omitempty"`
	CLI          *cliReplay  `json:"cli,omitempty"`
	Over         []poolItem  `json:"written_first_to_the_same_path,omitempty"`
	History      *histReplay `json:"history,omitempty"`
	Format       string      `json:"format"`
	Inventory    []poolItem  `json:"inventory"`
	File         string      `json:"file_name,omitempty"` // "" = the default name of the format
}

func scratchRoot() string {
	d := fmt.Sprintf("/dev/shm/verif-c15-%d", os.Getpid())
	_ = os.RemoveAll(d)
	if err := os.MkdirAll(d+"/tmp", 0o755); err != nil {
		fmt.Fprintln(os.Stderr, "scratch:", err)
		os.Exit(3)
	}
	os.Setenv("TMPDIR", d+"/tmp")
	return d
}

func doReplay(file string) {
	b, err := os.ReadFile(file)
	if err != nil {
		fmt.Fprintln(os.Stderr, err)
		os.Exit(3)
	}
	var rec struct {
		Key    string `json:"key"`
		Replay replay `json:"replay"`
	}
	if err := json.Unmarshal(b, &rec); err != nil {
		fmt.Fprintln(os.Stderr, err)
		os.Exit(3)
	}
	root := scratchRoot()
	if cr := rec.Replay.CLI; cr != nil {
		var fi []int
		for _, n := range cr.Formats {
			for i, x := range formats {
				if x.Name == n {
					fi = append(fi, i)
				}
			}
		}
		c := cliExport(cr.Inventory, fi, cr.Configured, root+"/cli")
		os.RemoveAll(root)
		out, _ := json.MarshalIndent(c, "", " ")
		fmt.Printf("replay %s: cli.Flags.WriteScanResults with -o %v\n%s\n", rec.Key, cr.Formats, out)
		if c.Err != "" || c.Panic != "" || len(c.Failed) > 0 {
			fmt.Println("reproduced")
			os.Exit(1)
		}
		fmt.Println("not reproduced: every output file is read back exactly")
		os.Exit(0)
	}
	if h := rec.Replay.History; h != nil {
		vs, _, pan := histRun(h.Family, h.I1, h.I2, root+"/hist", h.Seq)
		os.RemoveAll(root)
		fmt.Printf("replay %s importer=sbom/%s sequence=%q panic=%q\n", rec.Key, h.Family, h.Seq, pan)
		for _, v := range vs {
			fmt.Println("reproduced:", v.What)
		}
		if len(vs) > 0 || pan != "" {
			os.Exit(1)
		}
		fmt.Println("not reproduced: every import equals a fresh instance's")
		os.Exit(0)
	}
	var f format
	for _, x := range formats {
		if x.Name == rec.Replay.Format {
			f = x
		}
	}
	if rec.Replay.File != "" {
		f.File = rec.Replay.File
	}
	if rec.Replay.SecondFormat != "" {
		var f2 format
		for _, x := range formats {
			if x.Name == rec.Replay.SecondFormat {
				f2 = x
			}
		}
		g := secondGeneration(rec.Replay.Inventory, f, f2, root+"/gen2")
		os.RemoveAll(root)
		out, _ := json.MarshalIndent(g, "", " ")
		fmt.Printf("replay %s: export %s -> import -> export %s -> import\n%s\n", rec.Key, f.Name, f2.Name, out)
		if !g.ok() {
			fmt.Println("reproduced: the second generation does not give back the PURLs of the first import")
			os.Exit(1)
		}
		fmt.Println("not reproduced: second generation is exact")
		os.Exit(0)
	}
	o := roundTripOver(rec.Replay.Over, rec.Replay.Inventory, f, root+"/replay")
	os.RemoveAll(root)
	out, _ := json.MarshalIndent(o, "", " ")
	fmt.Printf("replay %s format=%s file=%s inventory=%d packages\n%s\n", rec.Key, f.Name, f.File, len(rec.Replay.Inventory), out)
	if !o.ok() {
		fmt.Println("reproduced: inventory, written document and read-back PURL multisets are not all equal")
		os.Exit(1)
	}
	fmt.Println("not reproduced: round trip is exact")
	os.Exit(0)
}

var (
	reQuoted = regexp.MustCompile(`"[^"]*"|'[^']*'`)
	reNoise  = regexp.MustCompile(`[^A-Za-z]+`)
)

// failClass turns an importer failure into a stable, input-independent class.
func failClass(s string) string {
	s = strings.ReplaceAll(s, "x.spdx.json", "")
	s = strings.ReplaceAll(s, "x.spdx.yml", "")
	s = strings.ReplaceAll(s, "x.spdx", "")
	s = strings.ReplaceAll(s, "x.cdx.json", "")
	s = strings.ReplaceAll(s, "x.cdx.xml", "")
	s = reQuoted.ReplaceAllString(s, "_")
	s = strings.Trim(reNoise.ReplaceAllString(s, "-"), "-")
	if len(s) > 70 {
		s = s[:70]
	}
	return s
}

// singleKey names the root cause of a failing single-package round trip.
func singleKey(f format, label string, p poolItem, o *outcome, kind, typeSuffix string) string {
	switch {
	case o.Panic != "":
		return "panic:" + o.PanicSite
	case o.WriteErr != "":
		return "export-failed:" + f.Name + ":" + p.Shape
	}
	if p.U != nil {
		if _, err := purl.FromString(p.U.String()); err != nil && strings.Contains(err.Error(), "invalid PURL type") {
			return "purl-type-rejected:" + strings.ToLower(p.Type)
		}
	}
	if o.ReadFail != "" && len(o.Got) == 0 {
		// the importer could not read the file at all: the parser's complaint is the root cause
		return "import-failed:" + f.Name + ":" + failClass(o.ReadFail)
	}
	return "roundtrip:" + label + ":" + p.Shape + ":" + kind + typeSuffix
}

func main() {
	scankit.Quiet()
	if f := os.Getenv("VERIF_REPLAY"); f != "" {
		doReplay(f)
	}
	r := ev.Start("C15", "exploration", 4*time.Minute, 30*time.Minute)
	root := scratchRoot()
	finish := func(rule string, ex bool) {
		os.RemoveAll(root)
		r.Finish(rule, ex)
	}

	// types: syntactic references + dynamic harvest
	items, _, err := harvest.Run(ev.RepoDir(), root+"/harvest", r.ParallelFor)
	if err != nil {
		os.RemoveAll(root)
		fmt.Fprintln(os.Stderr, "harvest:", err)
		os.Exit(3)
	}
	types, err := harvest.EmittedTypes(ev.RepoDir(), items)
	if err != nil || len(types) == 0 {
		os.RemoveAll(root)
		fmt.Fprintln(os.Stderr, "types:", err)
		os.Exit(3)
	}
	os.RemoveAll(root + "/harvest")
	r.Set("purl_types", types)

	// pools
	var P, Q []poolItem
	var excluded []string
	typesWithShape := map[string]int{}
	for _, t := range types {
		for _, s := range shapes(t) {
			rp := repaired(s)
			if rp == nil {
				excluded = append(excluded, t+":"+s.Shape)
				continue
			}
			P = append(P, *rp)
			typesWithShape[s.Shape]++
			if s.Shape == "bare" || t == purl.TypeGeneric || t == purl.TypeDebian {
				Q = append(Q, *rp)
			}
		}
	}
	// names that coincide with the exporters' own structural names (types generic and deb; the
	// root-package look-alike main@0 also in Q)
	for _, t := range []string{purl.TypeGeneric, purl.TypeDebian} {
		for _, it := range structuralShapes(t) {
			P = append(P, it)
			typesWithShape[it.Shape]++
			if t == purl.TypeGeneric && it.Shape == "name-structural-main-0" {
				Q = append(Q, it)
			}
		}
	}
	// packages as the SBOM extractors themselves emit them: PURL and CPE together
	for _, t := range types {
		for _, meta := range []string{"cdx", "spdx"} {
			it := poolItem{Shape: "sbom-" + meta + "-purl+cpe", Type: t, U: &purl.PackageURL{Type: t, Name: "pkg", Version: "1.0"}, Meta: meta, CPEs: []string{cpe}}
			rp := repaired(it)
			if rp == nil {
				excluded = append(excluded, t+":"+it.Shape)
				continue
			}
			P = append(P, *rp)
			typesWithShape[it.Shape]++
			if t == purl.TypeGeneric || t == purl.TypeDebian {
				Q = append(Q, *rp)
			}
		}
	}
	// metadata-held complete PURL, but Package.Name / Package.Version empty or different
	for _, t := range types {
		for _, meta := range []string{"spdx", "cdx"} {
			for _, pf := range []string{"as-spdx-import", "empty", "different", "name-empty", "version-empty"} {
				if t != purl.TypeGeneric && t != purl.TypeDebian && !(meta == "spdx" && pf == "as-spdx-import") {
					continue
				}
				it := poolItem{Shape: "sbom-" + meta + "-pkgfields-" + pf, Type: t, U: &purl.PackageURL{Type: t, Name: "pkg", Version: "1.0"}, Meta: meta, PkgFields: pf}
				rp := repaired(it)
				if rp == nil {
					excluded = append(excluded, t+":"+it.Shape)
					continue
				}
				P = append(P, *rp)
				typesWithShape[it.Shape]++
				if t == purl.TypeGeneric {
					Q = append(Q, *rp)
				}
			}
		}
	}
	// the PURL has NO version while the package has one (a range, another version, text with
	// reserved characters), and the PURL has one while the package has none / another; for plain
	// packages and for packages of both SBOM extractors. A version-less PURL stays version-less.
	for _, t := range types {
		for _, meta := range []string{"", "cdx", "spdx"} {
			for _, v := range []struct {
				purlVersion, pf string
			}{{"", "version-range"}, {"", "version-other"}, {"", "version-reserved"}, {"1.0", "version-other"}, {"1.0", "version-empty"}, {"1.0", "version-range"}} {
				if t != purl.TypeGeneric && t != purl.TypeDebian && !(meta == "" && v.purlVersion == "" && v.pf == "version-range") {
					continue
				}
				label := "purl-versionless"
				if v.purlVersion != "" {
					label = "purl-versioned"
				}
				m := meta
				if m == "" {
					m = "plain"
				}
				it := poolItem{Shape: label + "-pkg-" + v.pf + "-" + m, Type: t, U: &purl.PackageURL{Type: t, Name: "pkg", Version: v.purlVersion}, Meta: meta, PkgFields: v.pf}
				if valid := func() bool { _, err := packageurl.FromString(it.U.String()); return err == nil }(); !valid {
					excluded = append(excluded, t+":"+it.Shape)
					continue
				}
				P = append(P, it)
				typesWithShape[it.Shape]++
				// Q (pairs, triples, file names, cli, overwrite, history, second generation): a subset
				inQ := v.purlVersion == "" && (v.pf == "version-range" || (v.pf == "version-reserved" && meta != "spdx")) || (v.purlVersion != "" && v.pf == "version-other" && meta == "")
				if t == purl.TypeGeneric && inQ {
					Q = append(Q, it)
				}
			}
		}
	}
	nopurl := poolItem{Shape: "no-purl"}
	cpeOnly := poolItem{Shape: "sbom-cdx-cpe-only", Meta: "cdx", CPEs: []string{cpe}}
	P = append(P, nopurl, cpeOnly)
	Q = append(Q, nopurl, cpeOnly)
	r.Set("pool", map[string]any{"P": len(P), "Q": len(Q), "shapes": len(shapes("generic")), "types": len(types), "excluded_spec_invalid": excluded})

	// enumeration, simplest first
	type job struct {
		inv []int // indexes into pool
		q   bool  // indexes refer to Q
		f   int
	}
	get := func(j job) []poolItem {
		out := make([]poolItem, len(j.inv))
		for i, k := range j.inv {
			if j.q {
				out[i] = Q[k]
			} else {
				out[i] = P[k]
			}
		}
		return out
	}
	var seq int64
	var seqMu sync.Mutex
	nextDir := func() string {
		seqMu.Lock()
		seq++
		n := seq
		seqMu.Unlock()
		return fmt.Sprintf("%s/w%d/%d", root, n%64, n) // sharded parents: no directory-lock contention
	}
	// distinct non-trivial case = (format, canonical PURL multiset expected back), non-empty: inventories that differ only in order or in PURL-less / skipped
	// packages are one case.
	distinct := func(o *outcome, f format) {
		if len(o.Inv) > 0 {
			r.Distinct(f.Name + "|" + strings.Join(o.Inv, " "))
		}
	}

	// phase 1: sizes 0 and 1 over P
	var jobs1 []job
	for f := range formats {
		jobs1 = append(jobs1, job{nil, false, f})
	}
	for i := range P {
		for f := range formats {
			jobs1 = append(jobs1, job{[]int{i}, false, f})
		}
	}
	res1 := make([]*outcome, len(jobs1))
	done1 := r.ParallelFor(len(jobs1), func(i int) {
		j := jobs1[i]
		inv := get(j)
		o := roundTrip(inv, formats[j.f], nextDir())
		r.Evals.Add(1)
		distinct(&o, formats[j.f])
		res1[i] = &o
	})
	// root-cause keys of the single-package failures: a failure shared by every format of a
	// family (spdx23-*, cdx-*) is one cause; the type is part of the key only when at most three
	// types (and not all) fail for that shape.
	family := func(f format) string { return f.Name[:strings.Index(f.Name, "-")] + "-*" }
	famSize := map[string]int{}
	for _, f := range formats {
		famSize[family(f)]++
	}
	kindOf := func(o *outcome) string {
		switch {
		case len(o.Lost) > 0 && len(o.Spurious) > 0:
			return "altered"
		case len(o.Spurious) > 0:
			return "spurious"
		}
		return "lost"
	}
	famFails := map[string]int{} // family|poolIdx|kind -> failing formats
	for i, o := range res1 {
		if o == nil || !o.rtFailed() || len(jobs1[i].inv) == 0 {
			continue
		}
		famFails[fmt.Sprintf("%s|%d|%s", family(formats[jobs1[i].f]), jobs1[i].inv[0], kindOf(o))]++
	}
	label := func(i int) string { // family label if the whole family fails alike, else the format
		f := formats[jobs1[i].f]
		if famFails[fmt.Sprintf("%s|%d|%s", family(f), jobs1[i].inv[0], kindOf(res1[i]))] == famSize[family(f)] {
			return family(f)
		}
		return f.Name
	}
	failByShape := map[string]map[string]bool{} // label|shape|kind -> failing types
	for i, o := range res1 {
		if o == nil || !o.rtFailed() || len(jobs1[i].inv) == 0 {
			continue
		}
		p := P[jobs1[i].inv[0]]
		k := label(i) + "|" + p.Shape + "|" + kindOf(o)
		if failByShape[k] == nil {
			failByShape[k] = map[string]bool{}
		}
		failByShape[k][p.Type] = true
	}
	singleFail := map[string]string{} // format|purl-or-shape -> key
	idOf := func(p poolItem) string {
		if p.U == nil {
			return p.Shape
		}
		return p.Type + "|" + p.Shape
	}
	// export half (inventory vs written document). The converter is shared by the formats of a
	// family, so the key carries the family.
	exKind := func(o *outcome) string {
		switch {
		case len(o.ExpLost) > 0 && len(o.ExpSpur) > 0:
			return "altered"
		case len(o.ExpSpur) > 0:
			return "spurious"
		}
		return "lost"
	}
	singleExFail := map[string]string{} // family|pool id -> key
	purlsOf := func(inv []poolItem) []string {
		var ps []string
		for _, p := range inv {
			if p.U == nil {
				ps = append(ps, "<no purl>")
			} else {
				ps = append(ps, p.U.String())
			}
		}
		return ps
	}
	exportKey := func(f format, idx []int, inv []poolItem, o *outcome) string {
		fam := family(f)
		if len(inv) == 0 {
			return "export:" + fam + ":empty-inventory:" + exKind(o)
		}
		if len(inv) == 1 {
			return "export:" + fam + ":" + inv[0].Shape + ":" + exKind(o)
		}
		for _, p := range inv { // a member whose export already fails alone is the root cause
			if k, ok := singleExFail[fam+"|"+idOf(p)]; ok {
				return k
			}
		}
		dup, sameTNV, nopurl := false, false, false
		var ss []string
		for a, p := range inv {
			ss = append(ss, p.Shape)
			if p.U == nil {
				nopurl = true
				continue
			}
			for b := 0; b < a; b++ {
				q := inv[b]
				if q.U == nil {
					continue
				}
				if idx[a] == idx[b] {
					dup = true
				} else if strings.EqualFold(p.U.Type, q.U.Type) && p.U.Name == q.U.Name && p.U.Version == q.U.Version {
					sameTNV = true
				}
			}
		}
		sort.Strings(ss)
		what := "interaction:" + strings.Join(ss, "+")
		switch {
		case sameTNV:
			what = "same-type-name-version-different-purl"
		case dup:
			what = "duplicate-packages"
		case nopurl:
			what = "with-purl-less-package"
		}
		return "export:" + fam + ":" + what + ":" + exKind(o)
	}
	reportExport := func(f format, idx []int, inv []poolItem, o *outcome) {
		k := exportKey(f, idx, inv, o)
		if len(inv) == 1 {
			singleExFail[family(f)+"|"+idOf(inv[0])] = k
		}
		r.Violation(k, fmt.Sprintf("%s, inventory %q: PURLs expected back %q, but the document built by the converter holds %q (missing %q, extra %q)", f.Name, purlsOf(inv), o.Inv, o.Expected, o.ExpLost, o.ExpSpur), replay{Format: f.Name, Inventory: inv})
	}
	for i, o := range res1 {
		if o != nil && o.Panic == "" && !o.exOK() {
			reportExport(formats[jobs1[i].f], jobs1[i].inv, get(jobs1[i]), o)
		}
	}
	for i, o := range res1 {
		if o == nil || !o.rtFailed() {
			continue
		}
		j := jobs1[i]
		f := formats[j.f]
		if len(j.inv) == 0 {
			k := "roundtrip:" + f.Name + ":empty-inventory"
			if o.Panic != "" {
				k = "panic:" + o.PanicSite
			} else if o.WriteErr != "" {
				k = "export-failed:" + f.Name + ":empty-inventory"
			}
			r.Violation(k, fmt.Sprintf("%s, empty inventory: %+v", f.Name, *o), replay{Format: f.Name})
			continue
		}
		p := P[j.inv[0]]
		ft := failByShape[label(i)+"|"+p.Shape+"|"+kindOf(o)]
		typeSuffix := ""
		if len(ft) <= 3 && len(ft) < typesWithShape[p.Shape] {
			var ts []string
			for t := range ft {
				ts = append(ts, t)
			}
			sort.Strings(ts)
			typeSuffix = ":type=" + strings.Join(ts, ",")
		}
		k := singleKey(f, label(i), p, o, kindOf(o), typeSuffix)
		singleFail[f.Name+"|"+idOf(p)] = k
		what := fmt.Sprintf("%s, one package with PURL %s: document holds %q, scan of %s returned %q", f.Name, p.U, o.Expected, f.File, o.Got)
		if p.U == nil {
			what = fmt.Sprintf("%s, one package without PURL: document holds %q, scan returned %q", f.Name, o.Expected, o.Got)
		}
		if o.Panic != "" {
			what += " panic: " + o.Panic
		}
		if o.WriteErr != "" {
			what += " write error: " + o.WriteErr
		}
		if o.ReadFail != "" {
			what += " importer: " + o.ReadFail
		}
		r.Violation(k, what, replay{Format: f.Name, Inventory: get(j)})
	}
	for i, o := range res1 {
		if o != nil && i%(len(res1)/5+1) == 7 {
			r.Sample(map[string]any{"format": formats[jobs1[i].f].Name, "inventory": get(jobs1[i]), "document_purls": o.Expected, "read_back": o.Got})
		}
	}
	if done1 < len(jobs1) {
		finish("SBOM export -> own importer round trip preserves the PURL multiset", false)
	}

	// phase 1b: the output file NAME is the exporter's (user's) choice; vary it over the spellings
	// the importers accept, for every single-package inventory over Q and one three-package
	// inventory. Only inventories whose default-name run was exact are judged (else the cause is
	// already reported).
	type njob struct {
		inv  []int // into Q
		f    int
		name altName
	}
	var jobsN []njob
	triple := []int{0, len(Q) / 2, len(Q) - 2}
	for f, fm := range formats {
		for _, an := range altNames[fm.Name] {
			for i := range Q {
				jobsN = append(jobsN, njob{[]int{i}, f, an})
			}
			jobsN = append(jobsN, njob{triple, f, an})
		}
	}
	resN := make([]*outcome, len(jobsN))
	resD := make([]*outcome, len(jobsN)) // same inventory under the default name
	doneN := r.ParallelFor(len(jobsN), func(i int) {
		j := jobsN[i]
		inv := get(job{j.inv, true, j.f})
		d := roundTrip(inv, formats[j.f], nextDir())
		o := roundTrip(inv, format{formats[j.f].Name, j.name.File}, nextDir())
		r.Evals.Add(1)
		if len(o.Inv) > 0 {
			r.Distinct(formats[j.f].Name + "|" + j.name.File + "|" + strings.Join(o.Inv, " "))
		}
		resN[i], resD[i] = &o, &d
	})
	nameStats := map[string]int{}
	for i, o := range resN {
		if o == nil || resD[i] == nil || !resD[i].ok() {
			continue
		}
		j := jobsN[i]
		nameStats[formats[j.f].Name+" -> "+j.name.File]++
		if o.ok() {
			continue
		}
		inv := get(job{j.inv, true, j.f})
		r.Violation("filename:"+formats[j.f].Name+":"+j.name.File,
			fmt.Sprintf("%s written as %q (%s), inventory %q: expected back %q, scan returned %q; the same inventory written as %q is read back exactly. importer: %s%s%s",
				formats[j.f].Name, j.name.File, j.name.Why, purlsOf(inv), o.Inv, o.Got, formats[j.f].File, o.ReadFail, o.WriteErr, o.Panic),
			replay{Format: formats[j.f].Name, Inventory: inv, File: j.name.File})
	}
	r.Set("file_names_judged", nameStats)
	r.Assume("file names: spellings marked 'by analogy' (upper-case variants of bom.json/bom.xml, .cdx.xml, .spdx.json, .spdx.yml) assume the importers match ALL their patterns case-insensitively; the extractors' own tests establish that only for *.cdx.json (sbom.cdx.JSON, sbom.cDX.json) and *.spdx (sbom.SPDX, sbom.SpDx), the rest follows from the single ToLower-based matcher they share")
	if doneN < len(jobsN) {
		finish("SBOM export -> own importer round trip preserves the PURL multiset", false)
	}

	// phase 1d: export through binary/cli (Flags.WriteScanResults), the code path of the scalibr
	// binary: every single -o format, every ordered pair of formats, all five in both orders; x
	// every single-package inventory over Q and one 3-package inventory; document flags unset / set.
	// Judged only for formats whose direct export of the same inventory is exact.
	var outSets [][]int
	for a := range formats {
		outSets = append(outSets, []int{a})
	}
	for a := range formats {
		for b := range formats {
			if a != b {
				outSets = append(outSets, []int{a, b})
			}
		}
	}
	outSets = append(outSets, []int{0, 1, 2, 3, 4}, []int{4, 3, 2, 1, 0})
	type cjob struct {
		inv  []int
		set  []int
		conf bool
	}
	var jobsC []cjob
	for i := range Q {
		for si, set := range outSets {
			jobsC = append(jobsC, cjob{[]int{i}, set, (i+si)%2 == 1})
		}
	}
	for si, set := range outSets {
		jobsC = append(jobsC, cjob{triple, set, si%2 == 0})
	}
	resC := make([]*cliResult, len(jobsC))
	directOK := func(inv []int, f int) bool { // phase 1 / 1b verdict for the same inventory and format
		if len(inv) == 1 {
			// Q singletons are P singletons too: find the phase-1 job
			for i, j := range jobs1 {
				if len(j.inv) == 1 && j.f == f && idOf(P[j.inv[0]]) == idOf(Q[inv[0]]) {
					return res1[i] != nil && res1[i].ok()
				}
			}
		}
		o := roundTrip(get(job{inv, true, f}), formats[f], nextDir())
		return o.ok()
	}
	doneC := r.ParallelFor(len(jobsC), func(i int) {
		j := jobsC[i]
		c := cliExport(get(job{j.inv, true, 0}), j.set, j.conf, nextDir())
		r.Evals.Add(1)
		resC[i] = &c
	})
	cliJudged := 0
	for i, c := range resC {
		if c == nil {
			continue
		}
		j := jobsC[i]
		inv := get(job{j.inv, true, 0})
		var names []string
		for _, fi := range j.set {
			names = append(names, formats[fi].Name)
		}
		cliJudged++
		r.Distinct("cli|" + strings.Join(names, ",") + "|" + fmt.Sprint(j.conf) + "|" + strings.Join(purlsOf(inv), " "))
		rp := replay{CLI: &cliReplay{names, j.conf, inv}}
		many := "single-output"
		if len(j.set) > 1 {
			many = "several-outputs"
		}
		switch {
		case c.Panic != "":
			r.Violation("cli-export:panic", fmt.Sprintf("cli.Flags.WriteScanResults -o %v on inventory %q panicked: %s", names, purlsOf(inv), c.Panic), rp)
			continue
		case c.Err != "":
			r.Violation("cli-export:error:"+many, fmt.Sprintf("cli.Flags.WriteScanResults -o %v on inventory %q failed: %s", names, purlsOf(inv), c.Err), rp)
			continue
		}
		for _, fn := range c.Failed {
			fi := 0
			for k, x := range formats {
				if x.Name == fn {
					fi = k
				}
			}
			if !directOK(j.inv, fi) {
				continue // the direct export of this format already fails: reported there
			}
			r.Violation("cli-export:"+many+":"+fn, fmt.Sprintf("cli.Flags.WriteScanResults -o %v (document flags set: %v), inventory %q: %v; the same inventory written with the converter and writer directly is read back exactly", names, j.conf, purlsOf(inv), c.Detail), rp)
		}
	}
	r.Set("cli_export_phase", map[string]int{"output_sets": len(outSets), "runs": cliJudged})
	if doneC < len(jobsC) {
		finish("SBOM export -> own importer round trip preserves the PURL multiset", false)
	}

	// phase 1e: the export replaces an existing report at the same path (a longer one, and a
	// shorter one): what is read back is the new inventory only.
	big := []poolItem{Q[1], Q[len(Q)/2], Q[len(Q)-3], Q[2]}
	type ojob struct {
		over, inv []poolItem
		f         int
		kind      string
	}
	var jobsO []ojob
	for f := range formats {
		for i := range Q {
			jobsO = append(jobsO, ojob{big, []poolItem{Q[i]}, f, "over-longer-report"})
			jobsO = append(jobsO, ojob{[]poolItem{Q[i]}, big, f, "over-shorter-report"})
		}
		jobsO = append(jobsO, ojob{big, nil, f, "over-longer-report"})
	}
	resO := make([]*outcome, len(jobsO))
	resOD := make([]*outcome, len(jobsO))
	doneO := r.ParallelFor(len(jobsO), func(i int) {
		j := jobsO[i]
		d := roundTrip(j.inv, formats[j.f], nextDir())
		o := roundTripOver(j.over, j.inv, formats[j.f], nextDir())
		r.Evals.Add(1)
		if len(o.Inv) > 0 {
			r.Distinct("overwrite|" + j.kind + "|" + formats[j.f].Name + "|" + strings.Join(o.Inv, " "))
		}
		resO[i], resOD[i] = &o, &d
	})
	for i, o := range resO {
		if o == nil || resOD[i] == nil || !resOD[i].ok() || o.ok() {
			continue
		}
		j := jobsO[i]
		r.Violation("overwrite:"+formats[j.f].Name+":"+j.kind,
			fmt.Sprintf("%s written to a path that already held the report of %q, inventory %q: expected back %q, scan returned %q (the same export into a fresh path is read back exactly). importer: %s%s%s",
				formats[j.f].Name, purlsOf(j.over), purlsOf(j.inv), o.Inv, o.Got, o.ReadFail, o.WriteErr, o.Panic),
			replay{Format: formats[j.f].Name, Inventory: j.inv, Over: j.over})
	}
	r.Set("overwrite_phase_runs", len(jobsO))
	if doneO < len(jobsO) {
		finish("SBOM export -> own importer round trip preserves the PURL multiset", false)
	}

	// phase 1f: second generation (see secondGeneration): every (f1, f2) pair of formats x every
	// single-package inventory over Q and one 3-package inventory.
	type gjob struct {
		inv    []int
		f1, f2 int
	}
	var jobsG []gjob
	for f1 := range formats {
		for f2 := range formats {
			for i := range Q {
				jobsG = append(jobsG, gjob{[]int{i}, f1, f2})
			}
			jobsG = append(jobsG, gjob{triple, f1, f2})
		}
	}
	resG := make([]*gen2Result, len(jobsG))
	doneG := r.ParallelFor(len(jobsG), func(i int) {
		j := jobsG[i]
		g := secondGeneration(get(job{j.inv, true, 0}), formats[j.f1], formats[j.f2], nextDir())
		r.Evals.Add(1)
		if g.Gen1OK && len(g.Want) > 0 {
			r.Distinct("gen2|" + formats[j.f1].Name + "|" + formats[j.f2].Name + "|" + strings.Join(g.Want, " "))
		}
		resG[i] = &g
	})
	for i, g := range resG {
		if g == nil || g.ok() {
			continue
		}
		j := jobsG[i]
		f1, f2 := formats[j.f1], formats[j.f2]
		inv := get(job{j.inv, true, 0})
		kind := "lost"
		switch lost, spur := multisetDiff(g.Want, g.Got), multisetDiff(g.Got, g.Want); {
		case g.Panic != "":
			kind = "panic"
		case g.Err != "":
			kind = "export-failed"
		case len(lost) > 0 && len(spur) > 0:
			kind = "altered"
		case len(spur) > 0:
			kind = "spurious"
		}
		r.Violation("second-generation:"+family(f2)+":from-"+family(f1)+":"+kind,
			fmt.Sprintf("inventory %q exported as %s and imported gives %v; exporting THOSE packages as %s and importing again: expected back %q, got %q %s%s",
				purlsOf(inv), f1.Name, g.Imported, f2.Name, g.Want, g.Got, g.Err, g.Panic),
			replay{Format: f1.Name, Inventory: inv, SecondFormat: f2.Name})
	}
	r.Set("second_generation_runs", len(jobsG))
	if doneG < len(jobsG) {
		finish("SBOM export -> own importer round trip preserves the PURL multiset", false)
	}

	// phase 1c: history independence of the importers (see histRun). Cases: I1 = a single-package
	// inventory over Q (quick: every 6th, thorough: all), I2 = I1 again (a second export of the same
	// inventory) for even cases, else a fixed two-package inventory; x {sbom/cdx, sbom/spdx}.
	type hjob struct {
		fam    string
		i1, i2 []poolItem
	}
	var jobsH []hjob
	hstep := ev.Pick(r, 6, 1)
	for i := 0; i < len(Q); i += hstep {
		if Q[i].U == nil {
			continue
		}
		i1 := []poolItem{Q[i]}
		i2 := []poolItem{Q[0], Q[3]}
		if (i/hstep)%2 == 0 {
			i2 = i1
		}
		for _, fam := range []string{"cdx", "spdx"} {
			jobsH = append(jobsH, hjob{fam, i1, i2})
		}
	}
	resH := make([][]histViolation, len(jobsH))
	panH := make([]string, len(jobsH))
	var histRuns atomic.Int64
	doneH := r.ParallelFor(len(jobsH), func(i int) {
		j := jobsH[i]
		vs, n, pan := histRun(j.fam, j.i1, j.i2, nextDir(), nil)
		resH[i], panH[i] = vs, pan
		histRuns.Add(int64(n))
		r.Evals.Add(int64(n))
		r.Distinct("history|" + j.fam + "|" + fmt.Sprint(purlsOf(j.i1), purlsOf(j.i2)))
	})
	for i, vs := range resH {
		j := jobsH[i]
		if panH[i] != "" {
			r.Violation("panic:history:sbom/"+j.fam, fmt.Sprintf("importing exported files of %q / %q in sequence panicked: %s", purlsOf(j.i1), purlsOf(j.i2), panH[i]), replay{History: &histReplay{j.fam, j.i1, j.i2, []string{"*"}}})
		}
		for _, v := range vs {
			r.Violation("history:sbom/"+j.fam+":"+v.Class, v.What, replay{History: &histReplay{j.fam, j.i1, j.i2, v.Seq}})
		}
	}
	r.Set("history_phase", map[string]any{"cases": len(jobsH), "scans": histRuns.Load()})
	if doneH < len(jobsH) {
		finish("SBOM export -> own importer round trip preserves the PURL multiset", false)
	}

	// phase 2: larger inventories
	var jobs2 []job
	if r.Thorough() {
		for a := range P {
			for b := range P {
				for f := range formats {
					jobs2 = append(jobs2, job{[]int{a, b}, false, f})
				}
			}
		}
		for a := range Q {
			for b := range Q {
				for c := range Q {
					for f := range formats {
						jobs2 = append(jobs2, job{[]int{a, b, c}, true, f})
					}
				}
			}
		}
	} else {
		for a := range Q {
			for b := range Q {
				for f := range formats {
					jobs2 = append(jobs2, job{[]int{a, b}, true, f})
				}
			}
		}
	}
	r.Set("inventories", map[string]int{"size0_and_1_runs": len(jobs1), "larger_runs": len(jobs2)})
	type fail struct {
		i int
		o outcome
	}
	var fails []fail
	var fmu sync.Mutex
	done2 := r.ParallelFor(len(jobs2), func(i int) {
		j := jobs2[i]
		inv := get(j)
		o := roundTrip(inv, formats[j.f], nextDir())
		r.Evals.Add(1)
		distinct(&o, formats[j.f])
		if !o.ok() {
			fmu.Lock()
			fails = append(fails, fail{i, o})
			fmu.Unlock()
		}
	})
	sort.Slice(fails, func(a, b int) bool { return fails[a].i < fails[b].i })
	invID := func(j job) string { return fmt.Sprint(j.q, j.inv) }
	famFails2 := map[string]int{}
	for _, fl := range fails {
		if fl.o.rtFailed() {
			famFails2[family(formats[jobs2[fl.i].f])+"|"+invID(jobs2[fl.i])+"|"+kindOf(&fl.o)]++
		}
	}
	for _, fl := range fails {
		j := jobs2[fl.i]
		f := formats[j.f]
		inv := get(j)
		if fl.o.Panic == "" && !fl.o.exOK() {
			reportExport(f, j.inv, inv, &fl.o)
		}
		if !fl.o.rtFailed() {
			continue
		}
		key := ""
		for _, p := range inv { // a member that already fails alone is the root cause
			if k, ok := singleFail[f.Name+"|"+idOf(p)]; ok {
				key = k
				break
			}
		}
		if key == "" {
			lbl := f.Name
			if famFails2[family(f)+"|"+invID(j)+"|"+kindOf(&fl.o)] == famSize[family(f)] {
				lbl = family(f)
			}
			dup := false
			var ss []string
			for a, p := range inv {
				ss = append(ss, p.Shape)
				for b := 0; b < a; b++ {
					if j.inv[a] == j.inv[b] {
						dup = true
					}
				}
			}
			sort.Strings(ss)
			what := "interaction:" + strings.Join(ss, "+")
			if dup {
				what = "duplicate-packages"
			}
			switch {
			case fl.o.Panic != "":
				key = "panic:" + fl.o.PanicSite
			case fl.o.WriteErr != "":
				key = "export-failed:" + f.Name + ":" + what
			case fl.o.ReadFail != "" && len(fl.o.Got) == 0:
				key = "import-failed:" + f.Name + ":" + failClass(fl.o.ReadFail)
			default:
				key = "roundtrip:" + lbl + ":" + what + ":" + kindOf(&fl.o)
			}
		}
		ps := purlsOf(inv)
		r.Violation(key, fmt.Sprintf("%s, inventory %q: document holds %q, scan of %s returned %q (lost %q, spurious %q) %s%s", f.Name, ps, fl.o.Expected, f.File, fl.o.Got, fl.o.Lost, fl.o.Spurious, fl.o.Panic, fl.o.WriteErr), replay{Format: f.Name, Inventory: inv})
	}
	finish("SBOM export (SPDX 2.3 json/yaml/tag-value, CycloneDX json/xml) -> file -> own SBOM extractors: PURL multiset read back == PURL multiset of the inventory's PURL-bearing packages (export: inventory == document; roundtrip: document == read back), canonical forms", done2 == len(jobs2))
}
