package main

import (
	"fmt"
	"os"
	"time"

	scalibr "github.com/google/osv-scalibr"
	"github.com/google/osv-scalibr/binary/spdx"
	"github.com/google/osv-scalibr/converter"
	"github.com/google/osv-scalibr/extractor"
	"github.com/google/osv-scalibr/inventory"
	"github.com/google/osv-scalibr/plugin"
	"github.com/google/osv-scalibr/purl"
	"github.com/spdx/tools-golang/tagvalue"
	"verif/harvest"
)

func main() {
	u := purl.PackageURL{Type: "deb", Name: "pkg", Version: "1.0"}
	var pkgs []*extractor.Package
	if len(os.Args) > 1 {
		pkgs = []*extractor.Package{{Name: "pkg", Version: "1.0", Locations: []string{"a"}, Extractor: harvest.PoolExtractor{}, Metadata: &u}}
	}
	res := &scalibr.ScanResult{Status: &plugin.ScanStatus{Status: plugin.ScanStatusSucceeded}, StartTime: time.Now(), EndTime: time.Now(),
		Inventory: inventory.Inventory{Packages: pkgs}}
	doc := converter.ToSPDX23(res, converter.SPDXConfig{})
	if err := spdx.Write23(doc, "/var/tmp/c15dbg/x.spdx", "spdx23-tag-value"); err != nil {
		fmt.Println("write:", err)
	}
	b, _ := os.ReadFile("/var/tmp/c15dbg/x.spdx")
	fmt.Println(string(b))
	f, _ := os.Open("/var/tmp/c15dbg/x.spdx")
	d, err := tagvalue.Read(f)
	fmt.Println("read err:", err, d != nil)
}
