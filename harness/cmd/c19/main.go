// C19 — capability filtering and plugin name resolution are consistent.
// Complete enumeration: 60 capability tuples x every registered plugin x every
// name-table key (and all pairs of keys), against an independent requirement predicate.
package main

import (
	"context"
	"fmt"
	scalibrfs "github.com/google/osv-scalibr/fs"
	"github.com/google/osv-scalibr/packageindex"
	"sort"
	"strings"
	"time"
	"verif/memfs"

	scalibr "github.com/google/osv-scalibr"
	"github.com/google/osv-scalibr/detector"
	dl "github.com/google/osv-scalibr/detector/list"
	"github.com/google/osv-scalibr/extractor/filesystem"
	el "github.com/google/osv-scalibr/extractor/filesystem/list"
	"github.com/google/osv-scalibr/extractor/standalone"
	sl "github.com/google/osv-scalibr/extractor/standalone/list"
	"github.com/google/osv-scalibr/plugin"
	"verif/ev"
	"verif/scankit"
)

// satisfies is written from the comments in plugin.go, not from ValidateRequirements.
func satisfies(req, c *plugin.Capabilities) bool {
	switch req.OS {
	case plugin.OSAny:
	case plugin.OSUnix:
		if c.OS != plugin.OSLinux && c.OS != plugin.OSMac {
			return false
		}
	default:
		if c.OS != req.OS {
			return false
		}
	}
	if req.Network != plugin.NetworkAny && req.Network != c.Network {
		return false
	}
	if req.DirectFS && !c.DirectFS {
		return false
	}
	if req.RunningSystem && !c.RunningSystem {
		return false
	}
	return true
}

type fakePlugin struct{ req plugin.Capabilities }

func (fakePlugin) Name() string                         { return "fake" }
func (fakePlugin) Version() int                         { return 1 }
func (f fakePlugin) Requirements() *plugin.Capabilities { return &f.req }

func allTuples() []plugin.Capabilities {
	var out []plugin.Capabilities
	for _, o := range []plugin.OS{plugin.OSAny, plugin.OSLinux, plugin.OSWindows, plugin.OSMac, plugin.OSUnix} {
		for _, n := range []plugin.Network{plugin.NetworkAny, plugin.NetworkOffline, plugin.NetworkOnline} {
			for _, d := range []bool{false, true} {
				for _, rs := range []bool{false, true} {
					out = append(out, plugin.Capabilities{OS: o, Network: n, DirectFS: d, RunningSystem: rs})
				}
			}
		}
	}
	return out
}

func capStr(c plugin.Capabilities) string {
	return fmt.Sprintf("OS=%d,Net=%d,DirectFS=%v,Running=%v", c.OS, c.Network, c.DirectFS, c.RunningSystem)
}

func names[T plugin.Plugin](ps []T) []string {
	out := []string{}
	for _, p := range ps {
		out = append(out, p.Name())
	}
	sort.Strings(out)
	return out
}

func main() {
	scankit.Quiet()
	r := ev.Start("C19", "exploration", 5*time.Minute, 10*time.Minute)
	tuples := allTuples()

	// (0) ValidateRequirements == satisfies over the full requirement x capability product.
	for _, req := range tuples {
		for _, c := range tuples {
			r.Evals.Add(1)
			c := c
			got := plugin.ValidateRequirements(fakePlugin{req}, &c) == nil
			want := satisfies(&req, &c)
			if got != want {
				r.Violation("validate-requirements-predicate", fmt.Sprintf("req{%s} caps{%s}: ValidateRequirements ok=%v, reference=%v", capStr(req), capStr(c), got, want), map[string]any{"req": capStr(req), "caps": capStr(c)})
			}
			if !want {
				r.Distinct("pred:" + capStr(req) + "|" + capStr(c))
			}
		}
	}

	// Instantiate registries.
	var fsAll []filesystem.Extractor
	fsKey := map[string]string{}
	for k, inits := range el.All {
		for _, i := range inits {
			e := i()
			fsAll = append(fsAll, e)
			fsKey[e.Name()] = k
			if e.Name() != k {
				r.Violation("fs-all-key-name-mismatch:"+k, fmt.Sprintf("el.All[%q] builds plugin named %q", k, e.Name()), k)
			}
		}
	}
	var stAll []standalone.Extractor
	for k, inits := range sl.All {
		for _, i := range inits {
			e := i()
			stAll = append(stAll, e)
			if e.Name() != k {
				r.Violation("st-all-key-name-mismatch:"+k, fmt.Sprintf("sl.All[%q] builds plugin named %q", k, e.Name()), k)
			}
		}
	}
	var detAll []detector.Detector
	for k, inits := range dl.All {
		for _, i := range inits {
			d := i()
			detAll = append(detAll, d)
			if d.Name() != k {
				r.Violation("det-all-key-name-mismatch:"+k, fmt.Sprintf("dl.All[%q] builds plugin named %q", k, d.Name()), k)
			}
		}
	}
	r.Set("registry", map[string]int{"filesystem": len(fsAll), "standalone": len(stAll), "detectors": len(detAll)})

	// (1) names unique within and across registries.
	seen := map[string]string{}
	for _, p := range fsAll {
		if w, ok := seen[p.Name()]; ok {
			r.Violation("duplicate-name:"+p.Name(), "plugin name "+p.Name()+" registered twice ("+w+", filesystem)", p.Name())
		}
		seen[p.Name()] = "filesystem"
	}
	for _, p := range stAll {
		if w, ok := seen[p.Name()]; ok {
			r.Violation("duplicate-name:"+p.Name(), "plugin name "+p.Name()+" registered twice ("+w+", standalone)", p.Name())
		}
		seen[p.Name()] = "standalone"
	}
	for _, p := range detAll {
		if w, ok := seen[p.Name()]; ok {
			r.Violation("duplicate-name:"+p.Name(), "plugin name "+p.Name()+" registered twice ("+w+", detector)", p.Name())
		}
		seen[p.Name()] = "detector"
	}
	r.Set("unique_names", len(seen))

	// (2) filters per capability tuple.
	for _, c := range tuples {
		c := c
		var wantFS, wantST, wantDet []string
		for _, p := range fsAll {
			r.Evals.Add(1)
			ok := satisfies(p.Requirements(), &c)
			if ok {
				wantFS = append(wantFS, p.Name())
			}
			if got := plugin.ValidateRequirements(p, &c) == nil; got != ok {
				r.Violation("validate-requirements:"+p.Name(), fmt.Sprintf("%s caps{%s}: Validate ok=%v reference=%v", p.Name(), capStr(c), got, ok), nil)
			}
			r.Distinct(fmt.Sprintf("plug:%s|%v|%s", p.Name(), ok, capStr(c)))
		}
		for _, p := range stAll {
			r.Evals.Add(1)
			if satisfies(p.Requirements(), &c) {
				wantST = append(wantST, p.Name())
			}
		}
		for _, p := range detAll {
			r.Evals.Add(1)
			if satisfies(p.Requirements(), &c) {
				wantDet = append(wantDet, p.Name())
			}
		}
		sort.Strings(wantFS)
		sort.Strings(wantST)
		sort.Strings(wantDet)
		chk := func(what string, got, want []string) {
			if strings.Join(got, ",") != strings.Join(want, ",") {
				r.Violation("filter:"+what, fmt.Sprintf("caps{%s}: %s kept %v, reference keeps %v", capStr(c), what, got, want), map[string]any{"caps": capStr(c)})
			}
		}
		fFS := el.FilterByCapabilities(fsAll, &c)
		fST := sl.FilterByCapabilities(stAll, &c)
		fDet := dl.FilterByCapabilities(detAll, &c)
		chk("el.FilterByCapabilities", names(fFS), wantFS)
		chk("el.FromCapabilities", names(el.FromCapabilities(&c)), wantFS)
		chk("sl.FilterByCapabilities", names(fST), wantST)
		chk("sl.FromCapabilities", names(sl.FromCapabilities(&c)), wantST)
		chk("dl.FilterByCapabilities", names(fDet), wantDet)
		chk("dl.FromCapabilities", names(dl.FromCapabilities(&c)), wantDet)
		// filtering is order preserving and works on sub-lists too: every prefix
		for n := 0; n <= len(fsAll); n += 7 {
			var w []string
			for _, p := range fsAll[:n] {
				if satisfies(p.Requirements(), &c) {
					w = append(w, p.Name())
				}
			}
			var g []string
			for _, p := range el.FilterByCapabilities(fsAll[:n], &c) {
				g = append(g, p.Name())
			}
			if strings.Join(g, ",") != strings.Join(w, ",") {
				r.Violation("filter:prefix-order", fmt.Sprintf("caps{%s} prefix %d: got %v want %v", capStr(c), n, g, w), nil)
			}
		}
		// a config built from the filtered lists validates
		cfg := &scalibr.ScanConfig{FilesystemExtractors: fFS, StandaloneExtractors: fST, Detectors: fDet, Capabilities: &c}
		if err := cfg.ValidatePluginRequirements(); err != nil {
			r.Violation("filtered-config-fails-validation", fmt.Sprintf("caps{%s}: %v", capStr(c), err), map[string]any{"caps": capStr(c)})
		}
		// an unfiltered config fails validation iff some plugin is unsatisfied
		cfgAll := &scalibr.ScanConfig{FilesystemExtractors: fsAll, StandaloneExtractors: stAll, Detectors: detAll, Capabilities: &c}
		errAll := cfgAll.ValidatePluginRequirements()
		allOK := len(wantFS) == len(fsAll) && len(wantST) == len(stAll) && len(wantDet) == len(detAll)
		if (errAll == nil) != allOK {
			r.Violation("unfiltered-config-validation", fmt.Sprintf("caps{%s}: err=%v but allSatisfied=%v", capStr(c), errAll, allOK), nil)
		}
		if err := cfg.EnableRequiredExtractors(); err != nil {
			r.Violation("enable-required-extractors", fmt.Sprintf("caps{%s}: %v", capStr(c), err), map[string]any{"caps": capStr(c)})
		} else {
			// every required extractor is now enabled exactly once
			en := map[string]int{}
			for _, e := range cfg.FilesystemExtractors {
				en[e.Name()]++
			}
			for _, e := range cfg.StandaloneExtractors {
				en[e.Name()]++
			}
			if err := cfg.ValidatePluginRequirements(); err != nil {
				r.Violation("filtered-config-fails-validation-after-auto-enable", fmt.Sprintf("caps{%s}: %v", capStr(c), err), map[string]any{"caps": capStr(c)})
			}
			for _, d := range fDet {
				for _, req := range d.RequiredExtractors() {
					if en[req] != 1 {
						r.Violation("required-extractor-not-enabled-once", fmt.Sprintf("caps{%s}: detector %s requires %s, enabled %d times", capStr(c), d.Name(), req, en[req]), nil)
					}
				}
			}
		}
		if r.SampleN() < 3 {
			r.Sample(map[string]any{"caps": capStr(c), "filesystem_kept": len(wantFS), "standalone_kept": wantST, "detectors_kept": wantDet})
		}
	}

	// (3) name tables.
	fsNames, stNames, detNames := el.VerifNames(), sl.VerifNames(), dl.VerifNames()
	sort.Strings(fsNames)
	sort.Strings(stNames)
	sort.Strings(detNames)
	r.Set("name_table_keys", map[string]int{"filesystem": len(fsNames), "standalone": len(stNames), "detectors": len(detNames)})
	groups := map[string]el.InitMap{"cpp": el.CppSource, "sbom": el.SBOM, "os": el.OS, "misc": el.Misc, "containers": el.Containers,
		"artifact": el.Artifact, "sourcecode": el.SourceCode, "default": el.Default, "all": el.All, "php": el.PHPSource, "rust": el.RustSource,
		"swift": el.SwiftSource, "ruby": el.RubySource, "r": el.RSource, "haskell": el.HaskellSource, "elixir": el.ElixirSource, "erlang": el.ErlangSource, "dart": el.DartSource}
	for _, k := range fsNames {
		r.Evals.Add(1)
		exs, err := el.ExtractorsFromNames([]string{k})
		if err != nil || len(exs) == 0 && k != "none" {
			r.Violation("fs-name-unresolvable:"+k, fmt.Sprintf("ExtractorsFromNames([%q]) = %d plugins, err %v", k, len(exs), err), k)
			continue
		}
		ns := names(exs)
		for i := 1; i < len(ns); i++ {
			if ns[i] == ns[i-1] {
				r.Violation("fs-name-dup-in-group:"+k, "group "+k+" returns "+ns[i]+" twice", k)
			}
		}
		if g, ok := groups[k]; ok {
			var w []string
			for kk := range g {
				w = append(w, kk)
			}
			sort.Strings(w)
			if strings.Join(ns, ",") != strings.Join(w, ",") {
				r.Violation("fs-group-content:"+k, fmt.Sprintf("group %q resolves to %v, exported map holds %v", k, ns, w), k)
			}
		}
		if _, isPlugin := fsKey[k]; isPlugin {
			e, err := el.ExtractorFromName(k)
			if err != nil || e.Name() != k {
				r.Violation("fs-own-name:"+k, fmt.Sprintf("ExtractorFromName(%q) err=%v", k, err), k)
			}
			if len(ns) != 1 || ns[0] != k {
				r.Violation("fs-own-name-list:"+k, fmt.Sprintf("ExtractorsFromNames([%q]) = %v", k, ns), k)
			}
		} else {
			// a group name is not an exact name unless the group has exactly one member with that name
			if e, err := el.ExtractorFromName(k); err == nil && e.Name() != k {
				r.Violation("fs-group-as-exact:"+k, "ExtractorFromName("+k+") returned "+e.Name(), k)
			}
		}
		r.Distinct("fsname:" + k)
	}
	for _, p := range fsAll {
		e, err := el.ExtractorFromName(p.Name())
		if err != nil || e.Name() != p.Name() {
			r.Violation("fs-own-name:"+p.Name(), fmt.Sprintf("ExtractorFromName(%q): %v", p.Name(), err), p.Name())
		}
	}
	// all ordered pairs of keys: dedup'd union
	single := map[string][]string{}
	for _, k := range fsNames {
		exs, _ := el.ExtractorsFromNames([]string{k})
		single[k] = names(exs)
	}
	for _, a := range fsNames {
		for _, b := range fsNames {
			r.Evals.Add(1)
			exs, err := el.ExtractorsFromNames([]string{a, b})
			if err != nil {
				r.Violation("fs-pair-error", fmt.Sprintf("ExtractorsFromNames([%q,%q]): %v", a, b, err), nil)
				continue
			}
			u := map[string]bool{}
			for _, n := range single[a] {
				u[n] = true
			}
			for _, n := range single[b] {
				u[n] = true
			}
			var w []string
			for n := range u {
				w = append(w, n)
			}
			sort.Strings(w)
			if g := names(exs); strings.Join(g, ",") != strings.Join(w, ",") {
				r.Violation("fs-pair-union", fmt.Sprintf("ExtractorsFromNames([%q,%q]) = %v, want dedup'd union %v", a, b, g, w), []string{a, b})
			}
		}
	}
	if _, err := el.ExtractorsFromNames([]string{"os", "no-such-plugin"}); err == nil {
		r.Violation("fs-unknown-name-accepted", "ExtractorsFromNames accepted an unknown name", nil)
	}
	for _, k := range stNames {
		r.Evals.Add(1)
		exs, err := sl.ExtractorsFromNames([]string{k})
		if err != nil {
			r.Violation("st-name-unresolvable:"+k, fmt.Sprintf("%v", err), k)
		}
		ns := names(exs)
		for i := 1; i < len(ns); i++ {
			if ns[i] == ns[i-1] {
				r.Violation("st-name-dup-in-group:"+k, "group "+k+" returns "+ns[i]+" twice", k)
			}
		}
		r.Distinct("stname:" + k)
	}
	for _, p := range stAll {
		e, err := sl.ExtractorFromName(p.Name())
		if err != nil || e.Name() != p.Name() {
			r.Violation("st-own-name:"+p.Name(), fmt.Sprintf("ExtractorFromName(%q): %v", p.Name(), err), p.Name())
		}
	}
	for _, k := range detNames {
		r.Evals.Add(1)
		ds, err := dl.DetectorsFromNames([]string{k})
		if err != nil {
			r.Violation("det-name-unresolvable:"+k, fmt.Sprintf("%v", err), k)
		}
		ns := names(ds)
		for i := 1; i < len(ns); i++ {
			if ns[i] == ns[i-1] {
				r.Violation("det-name-dup-in-group:"+k, "group "+k+" returns "+ns[i]+" twice", k)
			}
		}
		r.Distinct("detname:" + k)
	}
	for _, p := range detAll {
		ds, err := dl.DetectorsFromNames([]string{p.Name()})
		if err != nil || len(ds) != 1 || ds[0].Name() != p.Name() {
			r.Violation("det-own-name:"+p.Name(), fmt.Sprintf("DetectorsFromNames([%q]) = %v err %v", p.Name(), names(ds), err), p.Name())
		}
		// (4) required extractors resolve and can be auto-enabled
		for _, req := range p.RequiredExtractors() {
			r.Evals.Add(1)
			_, e1 := el.ExtractorFromName(req)
			_, e2 := sl.ExtractorFromName(req)
			if e1 != nil && e2 != nil {
				r.Violation("required-extractor-unresolvable:"+req, fmt.Sprintf("detector %s requires %q: %v / %v", p.Name(), req, e1, e2), nil)
			}
			cfg := &scalibr.ScanConfig{Detectors: []detector.Detector{p}}
			if err := cfg.EnableRequiredExtractors(); err != nil {
				r.Violation("enable-required-extractors:"+p.Name(), err.Error(), nil)
			} else if len(cfg.FilesystemExtractors)+len(cfg.StandaloneExtractors) != len(p.RequiredExtractors()) {
				r.Violation("enable-required-count:"+p.Name(), fmt.Sprintf("required %v, enabled %d+%d", p.RequiredExtractors(), len(cfg.FilesystemExtractors), len(cfg.StandaloneExtractors)), nil)
			}
			r.Distinct("req:" + p.Name() + ":" + req)
		}
	}
	// (5) several detectors sharing a required extractor: every subset of size 2 of the detectors
	// and the full set, starting from a configuration without extractors -- each required extractor
	// must end up enabled exactly once
	checkSet := func(ds []detector.Detector, what string) {
		r.Evals.Add(1)
		cfg := &scalibr.ScanConfig{Detectors: ds}
		if err := cfg.EnableRequiredExtractors(); err != nil {
			r.Violation("enable-required-extractors:"+what, err.Error(), nil)
			return
		}
		en := map[string]int{}
		for _, e := range cfg.FilesystemExtractors {
			en[e.Name()]++
		}
		for _, e := range cfg.StandaloneExtractors {
			en[e.Name()]++
		}
		want := map[string]bool{}
		for _, d := range ds {
			for _, req := range d.RequiredExtractors() {
				want[req] = true
			}
		}
		for name, n := range en {
			if n != 1 || !want[name] {
				r.Violation("required-extractor-enabled-"+map[bool]string{true: "more-than-once", false: "unrequested"}[want[name]], fmt.Sprintf("%s: %s enabled %d times (required: %v)", what, name, n, want[name]), nil)
			}
		}
		for name := range want {
			if en[name] == 0 {
				r.Violation("required-extractor-not-enabled", fmt.Sprintf("%s: %s not enabled", what, name), nil)
			}
		}
		if len(want) > 0 && len(ds) > 1 {
			r.Distinct("reqset:" + what)
		}
	}
	checkSet(detAll, "all detectors")
	for i := range detAll {
		for j := i + 1; j < len(detAll); j++ {
			checkSet([]detector.Detector{detAll[i], detAll[j]}, detAll[i].Name()+"+"+detAll[j].Name())
			checkSet([]detector.Detector{detAll[j], detAll[i]}, detAll[j].Name()+"+"+detAll[i].Name())
		}
	}
	// (6) a detector may require ANY registered extractor: for every registered filesystem and
	// standalone extractor name, a harness detector requiring it (alone, and together with one
	// filesystem name) must get exactly that extractor enabled, once
	var allNames []string
	for _, p := range fsAll {
		allNames = append(allNames, p.Name())
	}
	for _, p := range stAll {
		allNames = append(allNames, p.Name())
	}
	for _, n := range allNames {
		// one detector requiring [already enabled extractor, n, already enabled extractor]: n must still get enabled
		if len(fsAll) > 1 && n != fsAll[0].Name() && n != fsAll[1].Name() {
			r.Evals.Add(1)
			cfg := &scalibr.ScanConfig{FilesystemExtractors: []filesystem.Extractor{fsAll[0], fsAll[1]},
				Detectors: []detector.Detector{&scankit.Det{N: "harness-det", Required: []string{fsAll[0].Name(), n, fsAll[1].Name()}}}}
			if err := cfg.EnableRequiredExtractors(); err != nil {
				r.Violation("enable-required-extractors:after-an-enabled-one", fmt.Sprintf("requirements [%s, %s, %s] with the first and last already enabled: %v", fsAll[0].Name(), n, fsAll[1].Name(), err), nil)
			} else {
				cnt := 0
				for _, e := range cfg.FilesystemExtractors {
					if e.Name() == n {
						cnt++
					}
				}
				for _, e := range cfg.StandaloneExtractors {
					if e.Name() == n {
						cnt++
					}
				}
				if cnt != 1 || len(cfg.FilesystemExtractors)+len(cfg.StandaloneExtractors) != 3 {
					r.Violation("required-extractor-not-enabled", fmt.Sprintf("requirements [%s, %s, %s] with the first and last already enabled: %s enabled %d times, %d extractors in all", fsAll[0].Name(), n, fsAll[1].Name(), n, cnt, len(cfg.FilesystemExtractors)+len(cfg.StandaloneExtractors)), nil)
				}
			}
		}
		checkSet([]detector.Detector{&scankit.Det{N: "harness-det", Required: []string{n}}}, "harness detector requiring "+n)
		if len(fsAll) > 0 {
			checkSet([]detector.Detector{&scankit.Det{N: "harness-det", Required: []string{fsAll[0].Name(), n}}, &scankit.Det{N: "harness-det-2", Required: []string{n}}}, "two harness detectors requiring "+n)
		}
	}
	// (7) Scan itself: an extractor that a detector pulls in is subject to the same requirement check
	// as one that was configured directly. For every capability tuple and every registered filesystem
	// extractor, a scan of an empty virtual root with a harness detector requiring that extractor
	// fails exactly when the reference says the extractor's requirements are not met.
	for _, c := range tuples {
		c := c
		for _, p := range fsAll {
			ok := satisfies(p.Requirements(), &c)
			cfg := &scalibr.ScanConfig{
				Detectors: []detector.Detector{&scankit.Det{N: "harness-det", Required: []string{p.Name()}, Fn: func(context.Context, *scalibrfs.ScanRoot, *packageindex.PackageIndex) ([]*detector.Finding, error) {
					return nil, nil
				}}},
				Capabilities: &c,
				ScanRoots:    []*scalibrfs.ScanRoot{{FS: memfs.New(memfs.D("")), Path: ""}},
			}
			res := scalibr.New().Scan(context.Background(), cfg)
			r.Evals.Add(1)
			failed := res.Status.Status == plugin.ScanStatusFailed
			if failed == ok {
				r.Violation("scan-with-required-extractor:"+map[bool]string{true: "requirements-not-enforced", false: "rejected-although-satisfied"}[!ok], fmt.Sprintf("detector requiring %s under caps{%s}: scan status %s, reference says requirements satisfied=%v", p.Name(), capStr(c), res.Status, ok), nil)
			}
			r.Distinct(fmt.Sprintf("scanreq:%s|%v|%s", p.Name(), ok, capStr(c)))
		}
	}
	r.Assume("the requirement semantics are those written in the comments of plugin/plugin.go (OSUnix = Linux or Mac; Any = don't care)")
	r.Finish("complete enumeration: 60x60 requirement/capability tuples on a fake plugin; 60 capability tuples x every plugin of el.All/sl.All/dl.All; every key and every ordered pair of keys of the filesystem name table, every key of the other two; every RequiredExtractors entry; EnableRequiredExtractors on every ordered pair of detectors, on the full detector set, and for harness detectors requiring each registered filesystem and standalone extractor name. Scanner.Scan of an empty root with a harness detector requiring each filesystem extractor under each capability tuple (fails iff the extractor's requirements are not met). distinct = (plugin,verdict,tuple) triples + unsatisfied predicate cells + keys", true)
}
