// Alphabets and grammar-valid version generators for C07. Everything here is a fixed, ordered
// finite list; no randomness.
package main

import (
	"sort"
	"strings"
)

// BIG does not fit in 64 bits (2^64); BIG2 = 2^64-1 fits in uint64 but not int64.
const (
	BIG  = "18446744073709551616"
	BIG2 = "18446744073709551615"
)

// hugeNumbers: values around the 63/64-bit boundaries, a 20- and a 21-digit number whose string
// order is the opposite of their numeric order, and 2^64 written with leading zeros. They are put
// into EVERY numeric position an ecosystem grammar has (hugeForms) so that a position parsed with a
// fixed-width integer type shows up as a wrong order (P4), a broken preorder (P3) or a rejection.
var (
	hugeNumbers = []string{
		"9223372036854775807",   // 2^63-1
		"9223372036854775808",   // 2^63
		BIG2,                    // 2^64-1
		BIG,                     // 2^64
		"18446744073709551617",  // 2^64+1
		"99999999999999999999",  // 20 digits
		"100000000000000000000", // 21 digits
	}
	hugeLeadingZeros = "00" + BIG
)

// hugeForms substitutes every huge number for the '#' of every template. Templates in lz also get
// the leading-zero spelling (only where the grammar allows leading zeros in that position).
func hugeForms(plain, lz []string) []string {
	var out []string
	for _, t := range cat(plain, lz) {
		for _, h := range hugeNumbers {
			out = append(out, strings.ReplaceAll(t, "#", h))
		}
	}
	for _, t := range lz {
		out = append(out, strings.ReplaceAll(t, "#", hugeLeadingZeros))
	}
	return out
}

// rawAlphabet is Χ of DESIGN §5 C07: 13 "characters" (the last two are a 2-byte rune and a lone
// invalid UTF-8 byte).
var rawAlphabet = []string{"0", "1", "9", ".", "-", "+", "~", ":", "a", "_", " ", "é", "\xff", "٣"} // the last one is a non-ASCII decimal digit (category Nd)

// globalTokens is the part of Τ shared by all ecosystems.
var globalTokens = []string{
	"0", "1", "2", "9", "10", "01", "00", "000", BIG, "100000000000000000000", "2.0.0.1", "1.2.3.4.5",
	".", "-", "+", "~", "^", "_", "!", ":",
	"a", "alpha", "beta", "rc", "pre", "post", "dev", "sp", "ga", "final", "snapshot", "p", "cvs", "-r1", "v", " ",
}

// group = one comparator implementation (several ecosystem names may dispatch to it).
type group struct {
	id     string   // comparator id used in cause keys
	names  []string // ecosystem names accepted by semantic.Parse
	extra  []string // ecosystem specific tokens added to globalTokens
	core   []string // ecosystem specific part of the reduced token alphabet for the 3-token part of S1: coreCommon + core[:3] in quick, coreCommon + core + coreTail in thorough
	gen    func(th bool) []string
	gen2   func(th bool) []string // optional second family of valid versions, checked separately
	ref    func(a, b string) (int, bool)
	minRef int // sanity: at least this many generated versions must be canonical for ref
}

func cross(parts ...[]string) []string {
	out := []string{""}
	for _, p := range parts {
		next := make([]string, 0, len(out)*len(p))
		for _, o := range out {
			for _, x := range p {
				next = append(next, o+x)
			}
		}
		out = next
	}
	return out
}

// tuples returns all dotted tuples of exactly n components over nums.
func tuples(nums []string, n int, sep string) []string {
	parts := make([][]string, 0, 2*n)
	for i := 0; i < n; i++ {
		if i > 0 {
			parts = append(parts, []string{sep})
		}
		parts = append(parts, nums)
	}
	return cross(parts...)
}

func prefixAll(p string, xs []string) []string {
	out := make([]string, len(xs))
	for i, x := range xs {
		out[i] = p + x
	}
	return out
}

func cat(xs ...[]string) []string {
	var out []string
	for _, x := range xs {
		out = append(out, x...)
	}
	return out
}

// uniq removes duplicates keeping first occurrences (deterministic order).
func uniq(xs []string) []string {
	seen := make(map[string]bool, len(xs))
	out := xs[:0:0]
	for _, x := range xs {
		if !seen[x] {
			seen[x] = true
			out = append(out, x)
		}
	}
	return out
}

func pick[T any](th bool, q, t T) T {
	if th {
		return t
	}
	return q
}

var (
	n3  = []string{"0", "1", "10"}
	n4  = []string{"0", "1", "2", "10"}
	n01 = []string{"0", "1"}
)

func genSemver(th bool) []string {
	nums := pick(th, n3, n4)
	pres := []string{"", "-alpha", "-alpha.1", "-alpha.beta", "-beta", "-beta.2", "-beta.11", "-rc.1", "-0", "-1", "-10", "-0.3.7", "-x-y", "-alpha.10", "-1.alpha", "-Alpha"}
	out := cross(tuples(nums, 3, "."), pres)
	out = append(out, cross([]string{"1.0.0", "0.1.10"}, pres, []string{"+build", "+001", "+b.1-x"})...)
	out = append(out, hugeForms([]string{"#.0.0", "0.#.0", "0.0.#", "1.0.0-#", "1.0.0-rc.#", "1.0.0-alpha.#", "1.0.0-#.1", "1.0.0-rc.#+b"}, nil)...)
	out = append(out, BIG+".0.0", "0."+BIG+".0", "0.0."+BIG, BIG2+".0.0", "0.0."+BIG2, BIG+"."+BIG+"."+BIG, "1.0.0-"+BIG, "1.0.0-"+BIG2, "1.0.0-alpha."+BIG, "1.0.0-alpha."+BIG2)
	return out
}

func genNuGet(th bool) []string {
	nums := pick(th, n3, n4)
	cores := cat(tuples(nums, 2, "."), tuples(nums, 3, "."), prefixAll("1.", tuples(nums, 3, ".")))
	pres := []string{"", "-alpha", "-Alpha", "-alpha.1", "-beta", "-rc.1", "-RC.2", "-1"}
	if th {
		pres = append(pres, "-beta.11", "-x-y")
	}
	out := cross(cores, pres)
	out = append(out, cross([]string{"1.0.0", "1.0.0.1"}, []string{"", "-alpha", "-RC.2"}, []string{"+build", "+001"})...)
	out = append(out, zeroForms([]string{"1", "1.2"}, []string{"", "-alpha", "-rc.1"}, ".")...)
	out = append(out, hugeForms([]string{"1.0.0-#", "1.0.0-rc.#", "1.0.0-alpha.#", "1.0.0.1-RC.#"}, []string{"#.0", "1.#", "1.0.#", "1.0.0.#"})...)
	out = append(out, "1.01", "1.01.0", "01.1.0", "1.0.01-alpha", BIG+".0", "1."+BIG, "1.0.0."+BIG, "1.0.0-"+BIG, "1."+BIG2)
	return out
}

func genDebian(th bool) []string {
	epochs := []string{"", "0:", "1:"}
	nums := cat(tuples(n3, 1, "."), tuples(n3, 2, "."))
	suffix := []string{"", "~rc1", "+dfsg", "a", "~"}
	revs := []string{"", "-0", "-1", "-1ubuntu1", "-1~bpo1"}
	if th {
		nums = cat(tuples(n4, 1, "."), tuples(n4, 2, "."), prefixAll("1.", tuples(n3, 2, ".")))
		suffix = append(suffix, "+b1", "~~")
		revs = append(revs, "-10", "-1.1")
	}
	out := cross(epochs, nums, suffix, revs)
	out = append(out, zeroForms([]string{"1", "1.2", "1:1"}, []string{"", "~rc1", "-1", "-00", "a"}, ".")...)
	out = append(out, hugeForms(nil, []string{"#", "1.#", "#:1.0", "1.0-#", "1.0-1ubuntu#", "1.0~rc#", "1.0+b#", "1.0-1.#", "1:1.0-#"})...)
	out = append(out, "01", "1.01", "1.0-01", "1.0-1-1", "1:1.0-1-1", BIG, "1."+BIG, "1-"+BIG, BIG2, "1.0.a", "1.0+", "1.0~~a", "1.0-2", "1.0-0-1", "1.0-1-2")
	return out
}

// Maven: two families, checked separately. Maven's own ComparableVersion (and the pom.html "version
// order specification" it implements) is NOT transitive when a non-null qualifier that follows a
// '.' meets '-' forms: 1 < 1-sp < 1.0.alpha < 1 and 0 < 0.sp < 0-a1 < 0 hold in Maven itself
// (StringItem < ListItem < IntItem regardless of content). No preorder can agree with the published
// order there, so the order BETWEEN the two families, and '.sp' / '.unknown', are don't-care cells.
func genMaven(th bool) []string {
	nums := mavenNums(th)
	q := []string{"", "-alpha", "-alpha-1", "-alpha-2", "-alpha1", "-a1", "-beta-1", "-b2", "-milestone-1", "-m1", "-rc-1", "-cr-1", "-rc1",
		"-SNAPSHOT", "-ga", "-final", "-sp", "-sp-1", ".Final", "-foo", "-foo-1", "alpha1", "-1", "-2"}
	if th {
		q = append(q, ".RELEASE", "-rc-10", "-beta.1", "_alpha", "-alpha-SNAPSHOT", "-1-SNAPSHOT", ".Final-1", "-rc2")
	}
	out := cross(nums, q)
	out = append(out, zeroForms([]string{"1", "1.2"}, []string{"", "-alpha", "-alpha-00", "-sp", "-00", "-SNAPSHOT"}, ".")...)
	out = append(out, hugeForms(nil, []string{"#", "1.#", "1.0.#", "1.0-#", "1.0-alpha-#", "1.0-rc-#", "1.0-beta#", "1.0-sp-#", "1.0-foo-#"})...)
	out = append(out, "01", "1.01", "1.0-alpha-01", BIG, "1."+BIG, "1.0-alpha-"+BIG, "1-"+BIG, BIG2)
	// all-zero multi-digit components in every position
	out = append(out, "1.00.1", "1.00.5", "1.000.1", "00.1", "1.0.00", "3.00.2", "1.00", "1.00-alpha-1", "1.00.1-rc-1", "2.00.0")
	return out
}

func mavenNums(th bool) []string {
	if th {
		return cat(tuples(n4, 1, "."), tuples(n4, 2, "."), prefixAll("1.", tuples(n3, 2, ".")))
	}
	return cat(tuples(n3, 1, "."), tuples(n3, 2, "."), prefixAll("1.", tuples(n01, 2, ".")))
}

// genMavenDot: the JBoss/Spring style family with '.'-separated pre-release qualifiers.
func genMavenDot(th bool) []string {
	q := []string{"", ".alpha", ".alpha.1", ".Alpha1", ".Beta9", ".Beta10", ".CR1", ".rc2", ".Final", ".RELEASE", "-SNAPSHOT"}
	if th {
		q = append(q, ".M1", ".milestone.2", ".GA", ".beta")
	}
	out := cross(mavenNums(th), q)
	return append(out, hugeForms(nil, []string{"1.0.Beta#", "1.0.CR#", "1.0.alpha.#", "1.#.Final"})...)
}

func genPackagist(th bool) []string {
	nums := cat(tuples(n3, 2, "."), prefixAll("1.", tuples(n3, 2, ".")), []string{"1.0.0.0", "1.0.0.1", "1.0.1.0"})
	if th {
		nums = cat(tuples(n4, 2, "."), prefixAll("1.", tuples(n4, 2, ".")), prefixAll("1.0.", tuples(n3, 2, ".")))
	}
	st := []string{"", "-dev", "-alpha", "-alpha1", "-a1", "-beta", "-beta2", "-b2", "-RC", "-RC1", "-rc1", "-p1", "-pl1", "-patch1", "-patch"}
	if th {
		st = append(st, "-alpha10", "-RC2")
	}
	out := cross(nums, st)
	out = append(out, prefixAll("v", cross([]string{"1.0", "1.0.0", "1.0.1"}, st))...)
	out = append(out, zeroForms([]string{"1.2", "1.2.3"}, []string{"", "-beta1", "-beta00", "-p1", "-dev"}, ".")...)
	out = append(out, hugeForms(nil, []string{"#.0", "1.#", "1.0.#", "1.0.0.#", "1.0.0-alpha#", "1.0.0-beta#", "1.0.0-RC#", "1.0.0-p#", "1.0.0-patch#"})...)
	out = append(out, "1."+BIG, "1.0."+BIG, "1."+BIG+".0", BIG+".0", "1.0.0-alpha"+BIG, "1."+BIG2, "1.01", "1.0.0-beta01")
	return out
}

func genPyPI(th bool) []string {
	rel := cat(tuples(n3, 1, "."), tuples(n3, 2, "."))
	pre := []string{"", "a1", "b1", "rc1"}
	post := []string{"", ".post1"}
	dev := []string{"", ".dev0", ".dev1"}
	if th {
		rel = cat(tuples(n4, 1, "."), tuples(n4, 2, "."), prefixAll("1.", tuples(n3, 2, ".")))
		pre = append(pre, "a0", "rc2")
		post = append(post, ".post0")
	}
	out := cross(rel, pre, post, dev)
	el := cross([]string{"", "1!"}, []string{"1.0"}, pre, post, dev, []string{"", "+abc", "+1", "+abc.1", "+abc.def"})
	out = append(out, el...)
	// alternative (non-normalised but PEP 440 valid) spellings
	out = append(out, zeroForms([]string{"1", "1.2", "1!1"}, []string{"", "a00", "rc1", ".post00", ".dev00", "+00", "+abc.00"}, ".")...)
	out = append(out, hugeForms(nil, []string{"#", "1.#", "#!1.0", "1.0a#", "1.0b#", "1.0rc#", "1.0.post#", "1.0.dev#", "1.0+#", "1.0+abc.#", "1.0rc1.post#.dev1"})...)
	out = append(out, "1.0alpha1", "1.0-1", "1.0.RC1", "1.0c1", "1.0preview1", "1.0-beta-1", "1.0.rev", "1.0a", "1.0rc", "v1.0", "1.0-rev1", "1.0_dev1", "1.0.post", "1.0.dev", "1.0-ALPHA", "1.0+ABC", "1.0pre1", "1.0-r1", " 1.0 ", "01.0", "1.01",
		BIG, "1."+BIG, BIG+"!1", "1.0a"+BIG, "1.0.post"+BIG, "1.0.dev"+BIG, "1.0+"+BIG, "1."+BIG2)
	return out
}

func genRedHat(th bool) []string {
	epochs := []string{"", "0:", "1:"}
	nums := cat(tuples(n3, 2, "."), prefixAll("1.", tuples(n01, 2, ".")))
	suffix := []string{"", "~rc1", "^git1", "a", "~"}
	rels := []string{"", "-1", "-1.el8", "-10"}
	if th {
		nums = cat(tuples(n4, 2, "."), prefixAll("1.", tuples(n3, 2, ".")))
		suffix = append(suffix, "^", ".el8")
		rels = append(rels, "-2.el8_1", "-1.el8~1")
	}
	out := cross(epochs, nums, suffix, rels)
	out = append(out, zeroForms([]string{"1", "1.2", "1:1"}, []string{"", "~rc1", "^00", "-1", "-00", "a"}, ".")...)
	out = append(out, hugeForms(nil, []string{"#.0", "1.#", "#:1.0-1", "1.0-#", "1.0-1.el#", "1.0~rc#", "1.0^git#", "1.0-#.el8", "1:1.0-#"})...)
	out = append(out, "1", "01.0", "1.01", "1.0-01", BIG, "1."+BIG, "1.0-"+BIG, "1."+BIG2, "1.0_1", "1.0+1")
	return out
}

func genRubyGems(th bool) []string {
	nums := cat(tuples(n3, 1, "."), tuples(n3, 2, "."), tuples(n3, 3, "."))
	pre := []string{"", ".pre", ".pre1", ".rc1", ".rc.1", ".beta.2", ".a", ".b10", ".beta10"}
	if th {
		nums = cat(tuples(n4, 1, "."), tuples(n4, 2, "."), tuples(n4, 3, "."))
		pre = append(pre, ".a.0", ".rc2", ".A")
	}
	out := cross(nums, pre)
	out = append(out, zeroForms([]string{"1", "1.2"}, []string{"", ".rc1", ".rc00", ".a"}, ".")...)
	out = append(out, hugeForms(nil, []string{"#", "1.#", "1.0.#", "1.0.rc#", "1.0.rc.#", "1.0.beta.#"})...)
	out = append(out, "01", "1.01", "1.0.rc01", BIG, "1."+BIG, "1.0.rc"+BIG, "1."+BIG2, "1.0.0.0.1")
	return out
}

func genAlpine(th bool) []string {
	nums := cat([]string{"0", "1", "10"}, cross(n3, []string{"."}, []string{"0", "1", "10", "01"}), []string{"1.0.0", "1.0.1", "1.1.01", "1.01.1"})
	suf := []string{"", "_alpha", "_alpha1", "_beta2", "_rc1", "_git1", "_p", "_p1"}
	rev := []string{"", "-r0", "-r1"}
	if th {
		nums = cat(nums, cross([]string{"2"}, []string{"."}, []string{"0", "1", "10", "01"}), []string{"1.0.10", "1.10.0", "1.09", "1.9"})
		suf = append(suf, "_pre1", "_cvs1", "_svn1", "_hg1", "_rc1_p1")
		rev = append(rev, "-r10")
	}
	out := cross(nums, suf, rev)
	out = append(out, cross([]string{"1.0", "1.1", "1"}, []string{"a", "b"}, []string{"", "_rc1", "_p1"}, []string{"", "-r1"})...)
	out = append(out, zeroForms([]string{"1", "1.2", "00"}, []string{"", "_rc1", "-r1", "a", "_cvs0", "_cvs", "_cvs1"}, ".")...)
	out = append(out, "1.0_cvs0", "1.0_cvs", "1.0_svn0", "1.0_p0", "1.0_rc0", "1.0_alpha0")
	out = append(out, hugeForms(nil, []string{"#", "1.#", "1.0.#", "1.0_p#", "1.0_rc#", "1.0_alpha#", "1.0_git#", "1.0-r#", "1.0_p1-r#"})...)
	out = append(out, "1.0~abc", "1.0_p1~abc-r1", "1.0a~0f", "1.0~abc-r1", BIG, "1."+BIG, "1.0_p"+BIG, "1.0-r"+BIG, "1."+BIG2)
	return out
}

func genCRAN(th bool) []string {
	nums := pick(th, n3, n4)
	seps := []string{".", "-"}
	out := cat(
		cross(nums, seps, nums),
		cross(nums, seps, nums, seps, nums),
		cross([]string{"1"}, []string{"."}, n01, seps, nums, seps, nums),
	)
	out = append(out, zeroForms([]string{"1.2", "00.1"}, []string{""}, ".")...)
	out = append(out, "1.00", "1-00", "1.000", "1.2-00")
	out = append(out, hugeForms(nil, []string{"#.0", "1.#", "1.0.#", "1.0-#", "1.0.0.#"})...)
	out = append(out, "1.01", "01.1", "1.0-01", BIG+".0", "1."+BIG, "1.0-"+BIG, "1."+BIG2)
	return out
}

var groups = []*group{
	{id: "Alpine", names: []string{"Alpine"}, gen: genAlpine, ref: refAlpine, minRef: 40,
		extra: []string{"_alpha", "_p", "-r", "~abc", "svn", "git", "hg", "b"},
		core:  []string{"_", "a", "_alpha", "_p", "-r", "~abc", "r"}},
	{id: "CRAN", names: []string{"CRAN"}, gen: genCRAN, ref: refCRAN, minRef: 40,
		extra: []string{"A", "e"},
		core:  []string{"+", "a", ":", "_", " "}},
	{id: "Debian", names: []string{"Debian", "Ubuntu"}, gen: genDebian, ref: refDebian, minRef: 40,
		extra: []string{"ubuntu", "+dfsg", "~~"},
		core:  []string{":", "~", "+", "a", "ubuntu", " "}},
	{id: "Maven", names: []string{"Maven"}, gen: genMaven, gen2: genMavenDot, ref: refMaven, minRef: 40,
		extra: []string{"milestone", "cr", "m", "b", "release", "SNAPSHOT", "foo"},
		core:  []string{"alpha", "a", "rc", "sp", "ga", "snapshot", "foo", "_"}},
	{id: "NuGet", names: []string{"NuGet"}, gen: genNuGet, ref: refNuGet, minRef: 40,
		extra: []string{"RC", "Alpha", "x"},
		core:  []string{"+", "alpha", "rc", "RC", "a", "v", "~"}},
	{id: "Packagist", names: []string{"Packagist"}, gen: genPackagist, ref: refPackagist, minRef: 40,
		extra: []string{"RC", "pl", "patch", "#", "V", "b"},
		core:  []string{"v", "dev", "a", "beta", "RC", "p", "#", "_", "+"}},
	{id: "PyPI", names: []string{"PyPI"}, gen: genPyPI, ref: refPyPI, minRef: 40,
		extra: []string{"c", "preview", "rev", "r", "b", "POST"},
		core:  []string{"!", "a", "rc", "post", "dev", "+", "_", "v"}},
	{id: "RedHat", names: []string{"Red Hat"}, gen: genRedHat, ref: refRedHat, minRef: 40,
		extra: []string{"el8", "A"},
		core:  []string{":", "~", "^", "a", "_", "el8"}},
	{id: "RubyGems", names: []string{"RubyGems"}, gen: genRubyGems, ref: refRubyGems, minRef: 40,
		extra: []string{"A", "b"},
		core:  []string{"a", "b", "pre", "A", "_"}},
	{id: "semver", names: []string{"crates.io", "npm", "Go", "Hex", "Pub", "ConanCenter"}, gen: genSemver, ref: refSemver, minRef: 40,
		extra: []string{"A", "x"},
		core:  []string{"+", "alpha", "rc", "a", "A", "v", "~"}},
}

func (g *group) tokens() []string { return uniq(cat(globalTokens, g.extra)) }

// coreCommon/coreTail frame the per-ecosystem core tokens. "00" is there so that an all-zero
// multi-digit component meets an absent or a "0" component ("1.00" vs "1" vs "1.0") in BOTH tiers.
var (
	coreCommon = []string{"0", "1", "00", "01", ".", "-"}
	coreTail   = []string{"10", "000", BIG, "99999999999999999999", "100000000000000000000"}
)

// coreTokens is the alphabet of the 3-token part of S1.
func (g *group) coreTokens(th bool) []string {
	if th {
		return uniq(cat(coreCommon, g.core, coreTail))
	}
	return uniq(cat(coreCommon, g.core[:3]))
}

// zeroForms: versions whose last numeric component is all zeros of length 1..3 (and the version
// without it), optionally followed by a suffix: an absent component, "0", "00" and "000" must be
// ordered consistently with each other.
func zeroForms(bases, suffixes []string, sep string) []string {
	return cross(bases, []string{"", sep + "0", sep + "00", sep + "000", sep + "0" + sep + "00"}, suffixes)
}

// kStrings enumerates strings of up to maxLen letters over an alphabet, shortest first,
// addressed by index so that work can be sharded without materialising the space.
type kStrings struct {
	alpha []string
	off   []int // off[l] = number of strings shorter than l
}

func newKStrings(alpha []string, maxLen int) *kStrings {
	k := &kStrings{alpha: alpha, off: make([]int, maxLen+2)}
	p := 1
	for l := 0; l <= maxLen; l++ {
		k.off[l+1] = k.off[l] + p
		p *= len(alpha)
	}
	return k
}

func (k *kStrings) total() int { return k.off[len(k.off)-1] }

func (k *kStrings) at(idx int) string {
	l := sort.Search(len(k.off), func(i int) bool { return k.off[i] > idx }) - 1
	rem := idx - k.off[l]
	n := len(k.alpha)
	digs := make([]int, l)
	for i := l - 1; i >= 0; i-- {
		digs[i] = rem % n
		rem /= n
	}
	var b strings.Builder
	for _, d := range digs {
		b.WriteString(k.alpha[d])
	}
	return b.String()
}
