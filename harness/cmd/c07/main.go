// C07 — ecosystem version comparison is total, consistent and a valid ordering.
//
// Decided by bounded exhaustive enumeration against /repo/semantic (Parse + Version.CompareStr),
// for every ecosystem name accepted by semantic.Parse (16 names, 10 comparators):
//
//	P1 totality + reflexivity: every string over a 14-symbol raw alphabet (digits . - + ~ : a _ space,
//	   a 2-byte rune, a lone 0xff byte) up to length 4 (quick) / 5 (thorough), and every concatenation
//	   of <=3 / <=4 tokens of a per-ecosystem token alphabet (~35 tokens: numbers incl. 01 and a 20-digit
//	   one, separators, qualifiers): Parse and CompareStr never panic; if Parse(s) succeeds then
//	   s.CompareStr(s) == 0 with no error.
//	P2 antisymmetry: S1 = all ACCEPTED token strings with <=2 tokens (+ all 3-token strings over a
//	   9-token core alphabet incl. 00 in quick / ~16-token core alphabet in thorough); for ALL ordered pairs: sign(cmp(a,b)) == -sign(cmp(b,a)),
//	   and an error in one direction only is a violation.
//	P3 total preorder on grammar-valid versions: S2 = generated valid versions (gen.go); every one
//	   must be accepted, every pair comparable; on the full |S2|^2 matrix ALL triples are checked for
//	   transitivity of <= and congruence of == (a==b => cmp(a,c)==cmp(b,c)).
//	P4 published order: for the subset of S2 the reference comparator (refver.go) recognises as
//	   canonical, all pairs must agree in sign with the reference.
//	P5 history independence: Parse/CompareStr are pure functions — see hist.go. Every cell of two
//	   shared probe matrices is evaluated for each name in a fresh process and again in this process
//	   after P1..P4 and after all other ecosystems have handled the same strings; outcomes must match.
//
// DON'T-CARE CELLS (the model accepts every behaviour):
//   - whether a string outside the ecosystem grammar is accepted or rejected by Parse;
//   - the ORDER between two accepted strings when at least one is not grammar-valid (only
//     no-panic, reflexivity and antisymmetry are demanded there); in particular Alpine "invalid"
//     strings among themselves and vs. valid ones, PyPI legacy versions, transitivity on such strings;
//   - a pair for which CompareStr returns an error in BOTH directions;
//   - published order outside the canonical sub-grammars of refver.go: semver pre-release
//     identifiers that are a hyphen followed only by digits ("1.0.0--1": the implementation treats
//     "-1" as a number, the spec as alphanumeric — reported as an observation, not demanded), leading
//     'v', leading zeros; Debian colons inside upstream; Maven qualifiers other than the eight
//     well-known ones, '.'-separated or unseparated qualifiers, ga/final followed by a number; RPM
//     pairs where only one side has a release; Packagist pairs with different numbers of numeric
//     components (composer pads, version_compare does not) and unknown stability words; Alpine
//     pairs with different numbers of numeric components, leading zeros, hashes, "_x" vs "_x0",
//     and pairs where only one side has -rN; NuGet/semver build metadata is ignored by the reference
//     as by the specs;
//   - Maven: the order between the '-'-qualifier family (gen.go genMaven) and the '.'-qualifier family
//     (genMavenDot), and '.sp' / '.<unknown qualifier>' altogether: Maven's own ComparableVersion has
//     cycles there (1 < 1-sp < 1.0.alpha < 1; 0 < 0.sp < 0-a1 < 0), the implementation reproduces
//     them faithfully, and no preorder can agree with the published order. Each family is checked
//     for the preorder laws on its own;
//   - the magnitude of a non-zero comparison result (only its sign is used).
package main

import (
	"encoding/json"
	"fmt"
	"hash/fnv"
	"math/big"
	"os"
	"runtime"
	"sort"
	"strconv"
	"strings"
	"sync"
	"sync/atomic"
	"time"

	"github.com/google/osv-scalibr/semantic"
	"verif/ev"
)

const (
	resErr   int8 = 2
	resPanic int8 = 3
)

// ---------------------------------------------------------------------------------------------
// violation collector: keeps, per cause key, the count and the smallest witness, so that what is
// reported does not depend on goroutine scheduling.

type witness struct {
	size   int
	text   string
	what   string
	replay map[string]any
}

type collector struct {
	mu    sync.Mutex
	count map[string]int
	best  map[string]*witness
}

func newCollector() *collector {
	return &collector{count: map[string]int{}, best: map[string]*witness{}}
}

func q(s string) string { return strconv.Quote(s) }

func (c *collector) add(key, name, kind, what string, strs ...string) {
	size := 0
	for _, s := range strs {
		size += len(s)
	}
	text := name + "\x00" + kind + "\x00" + strings.Join(strs, "\x00")
	c.mu.Lock()
	defer c.mu.Unlock()
	c.count[key]++
	b := c.best[key]
	if b != nil && (b.size < size || (b.size == size && b.text <= text)) {
		return
	}
	qs := make([]string, len(strs))
	for i, s := range strs {
		qs[i] = q(s)
	}
	c.best[key] = &witness{size: size, text: text, what: what, replay: map[string]any{"ecosystem": name, "kind": kind, "strings": qs}}
}

func (c *collector) n(key string) int { c.mu.Lock(); defer c.mu.Unlock(); return c.count[key] }

func (c *collector) flush(r *ev.Run) {
	keys := make([]string, 0, len(c.count))
	for k := range c.count {
		keys = append(keys, k)
	}
	sort.Strings(keys)
	for _, k := range keys {
		w := c.best[k]
		r.Violation(k, fmt.Sprintf("%s [%d cases]", w.what, c.count[k]), w.replay)
	}
}

// ---------------------------------------------------------------------------------------------
// calling the implementation

// safe runs fn, containing a panic. Instead of formatting a stack trace for each of possibly
// millions of panics it collects program counters and resolves (cached) the first frame inside the
// repository, which is the stable "site" used in cause keys (same notion as ev.PanicSite).
var siteCache sync.Map // [32]uintptr -> string

func safe(fn func()) (p any, site string) {
	defer func() {
		if x := recover(); x != nil {
			p = x
			var pcs [32]uintptr
			n := runtime.Callers(2, pcs[:])
			if s, ok := siteCache.Load(pcs); ok {
				site = s.(string)
				return
			}
			site = "unknown-site"
			frames := runtime.CallersFrames(pcs[:n])
			for {
				f, more := frames.Next()
				if strings.HasPrefix(f.Function, "github.com/google/osv-scalibr/") && !strings.Contains(f.Function, "verif") {
					site = strings.TrimPrefix(f.Function, "github.com/google/osv-scalibr/")
					break
				}
				if !more {
					break
				}
			}
			siteCache.Store(pcs, site)
		}
	}()
	fn()
	return nil, ""
}

func parse(name, s string) (v semantic.Version, err error, p any, site string) {
	p, site = safe(func() { v, err = semantic.Parse(s, name) })
	return
}

func compare(v semantic.Version, s string) (c int, err error, p any, site string) {
	p, site = safe(func() { c, err = v.CompareStr(s) })
	return
}

func cranHasNonNumeric(s string) bool {
	for _, part := range strings.Split(strings.ReplaceAll(s, "-", "."), ".") {
		if _, ok := new(big.Int).SetString(part, 10); !ok {
			return true
		}
	}
	return false
}

// panicKey groups panics by root cause: the panic site, except for the one class that has a name.
func panicKey(g *group, p any, site string, strs ...string) string {
	if g.id == "CRAN" && strings.Contains(fmt.Sprint(p), "nil pointer dereference") {
		for _, s := range strs {
			if cranHasNonNumeric(s) {
				return "CRAN:nil-component-panic"
			}
		}
	}
	return g.id + ":panic:" + site
}

type ctx struct {
	r   *ev.Run
	col *collector
}

// cmpCell evaluates cmp(a,b) with v = Parse(a) already done; records panics.
func (x *ctx) cmpCell(g *group, name string, v semantic.Version, a, b string) int8 {
	c, err, p, stack := compare(v, b)
	x.r.Evals.Add(1)
	switch {
	case p != nil:
		x.col.add(panicKey(g, p, stack, a, b), name, "pair", fmt.Sprintf("%s: Parse(%s).CompareStr(%s) panics: %v", name, q(a), q(b), p), a, b)
		return resPanic
	case err != nil:
		return resErr
	}
	return int8(sgn(c))
}

// ---------------------------------------------------------------------------------------------
// P1

type hashBag struct {
	mu sync.Mutex
	h  []uint64
}

func (b *hashBag) addAll(hs []uint64) { b.mu.Lock(); b.h = append(b.h, hs...); b.mu.Unlock() }

func (b *hashBag) distinct() int {
	sort.Slice(b.h, func(i, j int) bool { return b.h[i] < b.h[j] })
	n := 0
	for i, h := range b.h {
		if i == 0 || h != b.h[i-1] {
			n++
		}
	}
	return n
}

func hash64(s string) uint64 { h := fnv.New64a(); h.Write([]byte(s)); return h.Sum64() }

// selfCheck is the P1 body for one string; reports whether the string was accepted.
func (x *ctx) selfCheck(g *group, name, s string) bool {
	v, err, p, stack := parse(name, s)
	x.r.Evals.Add(1)
	if p != nil {
		x.col.add(panicKey(g, p, stack, s), name, "self", fmt.Sprintf("%s: Parse(%s) panics: %v", name, q(s), p), s)
		return false
	}
	if err != nil {
		return false
	}
	if v == nil {
		x.col.add(g.id+":nil-version-without-error", name, "self", fmt.Sprintf("%s: Parse(%s) returned nil, nil", name, q(s)), s)
		return false
	}
	c, cerr, p, stack := compare(v, s)
	x.r.Evals.Add(1)
	switch {
	case p != nil:
		x.col.add(panicKey(g, p, stack, s), name, "self", fmt.Sprintf("%s: Parse(%s).CompareStr(same) panics: %v", name, q(s), p), s)
	case cerr != nil:
		x.col.add(g.id+":reflexivity-error", name, "self", fmt.Sprintf("%s: Parse(%s) succeeds but comparing it with itself fails: %v", name, q(s), cerr), s)
	case c != 0:
		x.col.add(g.id+":reflexivity", name, "self", fmt.Sprintf("%s: cmp(%s, same) = %d, want 0", name, q(s), c), s)
	}
	// totality against other strings: an accepted version compared with a few ordinary versions, in
	// both directions, must not panic either (an error is fine)
	for _, probe := range []string{"1.2.3", "0", "1.0-1"} {
		if _, _, p, stack := compare(v, probe); p != nil {
			x.col.add(panicKey(g, p, stack, s), name, "self", fmt.Sprintf("%s: Parse(%s).CompareStr(%s) panics: %v", name, q(s), q(probe), p), s)
			break
		}
		if pv, perr, pp, _ := parse(name, probe); pp == nil && perr == nil && pv != nil {
			if _, _, p, stack := compare(pv, s); p != nil {
				x.col.add(panicKey(g, p, stack, s), name, "self", fmt.Sprintf("%s: Parse(%s).CompareStr(%s) panics: %v", name, q(probe), q(s), p), s)
				break
			}
		}
		x.r.Evals.Add(2)
	}
	return true
}

const chunk = 2048

func (x *ctx) part1(g *group, name string, ks *kStrings, bag *hashBag, accepted *atomic.Int64) bool {
	total := ks.total()
	nchunks := (total + chunk - 1) / chunk
	done := x.r.ParallelFor(nchunks, func(ci int) {
		var hs []uint64
		for i := ci * chunk; i < total && i < (ci+1)*chunk; i++ {
			s := ks.at(i)
			if x.selfCheck(g, name, s) {
				hs = append(hs, hash64(s))
			}
		}
		accepted.Add(int64(len(hs)))
		if bag != nil {
			bag.addAll(hs)
		}
	})
	return done == nchunks
}

// ---------------------------------------------------------------------------------------------
// P2 / P3 matrix

// matrix computes cmp for all ordered pairs of xs (all of which must have been accepted).
func (x *ctx) matrix(g *group, name string, xs []string) ([][]int8, bool) {
	n := len(xs)
	m := make([][]int8, n)
	done := x.r.ParallelFor(n, func(i int) {
		row := make([]int8, n)
		v, err, p, _ := parse(name, xs[i])
		if p != nil || err != nil || v == nil {
			for j := range row {
				row[j] = resErr
			}
			m[i] = row
			return
		}
		for j := 0; j < n; j++ {
			row[j] = x.cmpCell(g, name, v, xs[i], xs[j])
		}
		m[i] = row
	})
	return m, done == n
}

// antisym checks both orientations of every unordered pair; returns number of strictly ordered pairs.
func (x *ctx) antisym(g *group, name string, xs []string, m [][]int8, part string) int {
	strict := 0
	for i := range xs {
		for j := i; j < len(xs); j++ {
			a, b := m[i][j], m[j][i]
			switch {
			case a == resPanic || b == resPanic:
			case a == resErr && b == resErr:
			case a == resErr || b == resErr:
				x.col.add(g.id+":error-asymmetry", name, "pair", fmt.Sprintf("%s (%s): cmp(%s,%s) and cmp(%s,%s): one direction errors, the other returns a value", name, part, q(xs[i]), q(xs[j]), q(xs[j]), q(xs[i])), xs[i], xs[j])
			case i == j:
				if a != 0 {
					x.col.add(g.id+":reflexivity", name, "self", fmt.Sprintf("%s: cmp(%s, same) = %d, want 0", name, q(xs[i]), a), xs[i])
				}
			case a != -b:
				x.col.add(g.id+":antisymmetry", name, "pair", fmt.Sprintf("%s (%s): cmp(%s,%s)=%d but cmp(%s,%s)=%d", name, part, q(xs[i]), q(xs[j]), a, q(xs[j]), q(xs[i]), b), xs[i], xs[j])
			case a != 0:
				strict++
			}
		}
	}
	return strict
}

func okCell(c int8) bool { return c >= -1 && c <= 1 }

// triples checks transitivity of <= and congruence of == over all triples of the matrix.
func (x *ctx) triples(g *group, name string, xs []string, m [][]int8) (checked int64, complete bool) {
	n := len(xs)
	var cnt atomic.Int64
	var found atomic.Int64
	const maxFound = 2_000_000
	done := x.r.ParallelFor(n, func(a int) {
		if found.Load() > maxFound {
			return
		}
		ra := m[a]
		var local int64
		for b := 0; b < n; b++ {
			ab := ra[b]
			if !okCell(ab) || ab > 0 {
				continue
			}
			rb := m[b]
			local += int64(n)
			for c := 0; c < n; c++ {
				bc, ac := rb[c], ra[c]
				if !okCell(bc) || !okCell(ac) {
					continue
				}
				if bc <= 0 && ac > 0 {
					found.Add(1)
					x.col.add(x.transKey(g, xs[a], xs[b], xs[c]), name, "trans", fmt.Sprintf("%s: not transitive on grammar-valid versions: cmp(%s,%s)=%d, cmp(%s,%s)=%d but cmp(%s,%s)=%d", name, q(xs[a]), q(xs[b]), ab, q(xs[b]), q(xs[c]), bc, q(xs[a]), q(xs[c]), ac), xs[a], xs[b], xs[c])
				} else if ab == 0 && ac != bc {
					found.Add(1)
					x.col.add(x.congrKey(g, xs[a], xs[b], xs[c]), name, "congr", fmt.Sprintf("%s: equality is not a congruence on grammar-valid versions: cmp(%s,%s)=0 but cmp(%s,%s)=%d and cmp(%s,%s)=%d", name, q(xs[a]), q(xs[b]), q(xs[a]), q(xs[c]), ac, q(xs[b]), q(xs[c]), bc), xs[a], xs[b], xs[c])
				}
			}
		}
		cnt.Add(local)
	})
	if found.Load() > maxFound {
		x.r.Cap("%s: more than %d violating triples, scan cut short", name, maxFound)
	}
	return cnt.Load(), done == n
}

// Cause keys for order-law violations. A refinement names a root cause that was triaged; anything
// else falls into the generic per-comparator key.
func hasLongNumber(strs ...string) bool {
	for _, s := range strs {
		run := 0
		for i := 0; i < len(s); i++ {
			if s[i] >= '0' && s[i] <= '9' {
				run++
				if run >= 19 {
					return true
				}
			} else {
				run = 0
			}
		}
	}
	return false
}

// hasMultiZero: some maximal digit run is "00", "000", ...
func hasMultiZero(strs ...string) bool {
	for _, s := range strs {
		for i := 0; i < len(s); {
			if s[i] < '0' || s[i] > '9' {
				i++
				continue
			}
			j, zeros := i, true
			for j < len(s) && s[j] >= '0' && s[j] <= '9' {
				zeros = zeros && s[j] == '0'
				j++
			}
			if zeros && j-i >= 2 {
				return true
			}
			i = j
		}
	}
	return false
}

func (x *ctx) transKey(g *group, a, b, c string) string {
	if g.id == "Packagist" && hasLongNumber(a, b, c) {
		return "Packagist:long-number-component"
	}
	if g.id == "Alpine" && hasMultiZero(a, b, c) {
		return "Alpine:absent-vs-00-component"
	}
	return g.id + ":transitivity"
}

func pubKey(g *group, a, b string, got int) string {
	switch {
	case g.id == "Alpine" && got == 0 && (strings.Contains(a, "_cvs") != strings.Contains(b, "_cvs")):
		return "Alpine:no-suffix-equals-cvs"
	case g.id == "RubyGems" && hasMultiZero(a, b):
		return "RubyGems:multi-zero-segment"
	}
	return g.id + ":published-order"
}

func (x *ctx) congrKey(g *group, a, b, c string) string {
	if g.id == "Packagist" && hasLongNumber(a, b, c) {
		return "Packagist:long-number-component"
	}
	if g.id == "Alpine" && hasMultiZero(a, b, c) {
		return "Alpine:absent-vs-00-component"
	}
	return g.id + ":eq-congruence"
}

// ---------------------------------------------------------------------------------------------
// reference self-test (harness sanity, exit 3 on failure)

func refSelfTest() {
	fail := func(f string, a ...any) {
		fmt.Fprintf(os.Stderr, "C07 harness error: reference self-test: "+f+"\n", a...)
		os.Exit(3)
	}
	for _, g := range groups {
		chains := refChains[g.id]
		if g.id == "RedHat" {
			chains = refChains["Red Hat"]
		}
		if len(chains) == 0 {
			fail("no published chain for %s", g.id)
		}
		for _, ch := range chains {
			for i := range ch {
				for j := range ch {
					got, ok := g.ref(ch[i], ch[j])
					if !ok {
						// chains may cross a don't-care cell (e.g. RPM release presence); adjacent must be decided
						if j == i+1 {
							fail("%s: ref undecided on adjacent chain elements %q %q", g.id, ch[i], ch[j])
						}
						continue
					}
					if got != sgn(i-j) {
						fail("%s: ref(%q,%q)=%d want %d", g.id, ch[i], ch[j], got, sgn(i-j))
					}
				}
			}
		}
	}
}

// refConsistency: the reference itself must be a preorder on what it claims to decide.
func refConsistency(g *group, canon []string) {
	n := len(canon)
	m := make([][]int8, n)
	for i := range m {
		m[i] = make([]int8, n)
		for j := range m[i] {
			s, ok := g.ref(canon[i], canon[j])
			if !ok {
				m[i][j] = resErr
			} else {
				m[i][j] = int8(s)
			}
		}
	}
	var bad atomic.Value
	var wg sync.WaitGroup
	var next atomic.Int64
	for w := 0; w < ev.Workers(); w++ {
		wg.Add(1)
		go func() {
			defer wg.Done()
			for {
				i := int(next.Add(1) - 1)
				if i >= n || bad.Load() != nil {
					return
				}
				if m[i][i] != 0 {
					bad.Store(fmt.Sprintf("not reflexive on %q", canon[i]))
					return
				}
				for j := 0; j < n; j++ {
					if okCell(m[i][j]) != okCell(m[j][i]) || (okCell(m[i][j]) && m[i][j] != -m[j][i]) {
						bad.Store(fmt.Sprintf("not antisymmetric on %q %q", canon[i], canon[j]))
						return
					}
					if !okCell(m[i][j]) || m[i][j] > 0 {
						continue
					}
					for k := 0; k < n; k++ {
						if okCell(m[j][k]) && okCell(m[i][k]) && m[j][k] <= 0 && m[i][k] > 0 {
							bad.Store(fmt.Sprintf("not transitive on %q %q %q", canon[i], canon[j], canon[k]))
							return
						}
					}
				}
			}
		}()
	}
	wg.Wait()
	if b := bad.Load(); b != nil {
		fmt.Fprintf(os.Stderr, "C07 harness error: %s reference %s\n", g.id, b)
		os.Exit(3)
	}
}

// ---------------------------------------------------------------------------------------------

func buildS1(x *ctx, g *group, name string, th, primary bool) []string {
	toks := g.tokens()
	var cand []string
	ks := newKStrings(toks, 2)
	for i := 0; i < ks.total(); i++ {
		cand = append(cand, ks.at(i))
	}
	// 3-token strings over the core alphabet: a small one in quick (and for alias names), the full
	// one in thorough
	if primary {
		k3 := newKStrings(g.coreTokens(th), 3)
		for i := k3.off[3]; i < k3.total(); i++ {
			cand = append(cand, k3.at(i))
		}
	}
	cand = uniq(cand)
	sort.SliceStable(cand, func(i, j int) bool {
		if len(cand[i]) != len(cand[j]) {
			return len(cand[i]) < len(cand[j])
		}
		return cand[i] < cand[j]
	})
	var out []string
	for _, s := range cand {
		v, err, p, _ := parse(name, s)
		if p == nil && err == nil && v != nil {
			out = append(out, s)
		}
	}
	return out
}

func runEcosystem(x *ctx, g *group, name string, primary bool, stats map[string]any) {
	r := x.r
	th := r.Thorough()
	st := map[string]any{}
	stats[name] = st
	t0 := time.Now()
	defer func() { st["wall_s"] = float64(time.Since(t0).Milliseconds()) / 1000 }()

	// ---- P1
	var accRaw, accTok atomic.Int64
	bag := &hashBag{}
	if !primary {
		bag = nil // distinct strings are counted once per comparator
	}
	raw := newKStrings(rawAlphabet, ev.Pick(r, 4, 5))
	tok := newKStrings(g.tokens(), ev.Pick(r, 3, 4))
	c1 := x.part1(g, name, raw, bag, &accRaw)
	c2 := false
	if c1 {
		c2 = x.part1(g, name, tok, bag, &accTok)
	}
	st["p1_raw_strings"] = raw.total()
	st["p1_token_strings"] = tok.total()
	st["p1_accepted"] = accRaw.Load() + accTok.Load()
	st["p1_complete"] = c1 && c2
	if bag != nil {
		d := bag.distinct()
		st["p1_distinct_accepted"] = d
		r.Nontrivial.Add(int64(d))
	}
	if r.Expired() {
		return
	}

	// ---- P2 (alias names of a comparator use only the <=2-token part of S1)
	s1 := buildS1(x, g, name, th, primary)
	m1, full := x.matrix(g, name, s1)
	st["p2_S1"] = len(s1)
	st["p2_complete"] = full
	if !full {
		return
	}
	strict := x.antisym(g, name, s1, m1, "S1")
	st["p2_strict_pairs"] = strict
	if primary {
		r.Nontrivial.Add(int64(strict))
	}
	m1 = nil
	if r.Expired() {
		return
	}

	// ---- P3 + P4 (per family of grammar-valid versions)
	x.orderChecks(g, name, primary, st, "", uniq(g.gen(th)), g.minRef)
	if g.gen2 != nil && !r.Expired() {
		x.orderChecks(g, name, primary, st, "b", uniq(g.gen2(th)), 0)
	}
}

// orderChecks runs P3 and P4 on one family s2 of grammar-valid versions.
func (x *ctx) orderChecks(g *group, name string, primary bool, st map[string]any, fam string, s2 []string, minRef int) {
	r := x.r
	var valid []string
	for _, s := range s2 {
		v, err, p, stack := parse(name, s)
		r.Evals.Add(1)
		switch {
		case p != nil:
			x.col.add(panicKey(g, p, stack, s), name, "self", fmt.Sprintf("%s: Parse(%s) panics: %v", name, q(s), p), s)
		case err != nil || v == nil:
			x.col.add(g.id+":valid-version-rejected", name, "self", fmt.Sprintf("%s: grammar-valid version %s rejected: %v", name, q(s), err), s)
		default:
			valid = append(valid, s)
		}
	}
	m2, full := x.matrix(g, name, valid)
	st["p3"+fam+"_S2"] = len(valid)
	st["p3"+fam+"_complete"] = full
	if !full {
		return
	}
	for i := range valid {
		for j := range valid {
			if m2[i][j] == resErr {
				x.col.add(g.id+":valid-pair-incomparable", name, "pair", fmt.Sprintf("%s: grammar-valid versions %s and %s cannot be compared (error)", name, q(valid[i]), q(valid[j])), valid[i], valid[j])
			}
		}
	}
	strict2 := x.antisym(g, name, valid, m2, "S2")
	checked, tfull := x.triples(g, name, valid, m2)
	st["p3"+fam+"_strict_pairs"] = strict2
	st["p3"+fam+"_triples_checked"] = checked
	st["p3"+fam+"_triples_complete"] = tfull
	if primary {
		r.Nontrivial.Add(int64(strict2))
	}

	// ---- P4
	idx := []int{}
	var canon []string
	for i, s := range valid {
		if _, ok := g.ref(s, s); ok {
			idx = append(idx, i)
			canon = append(canon, s)
		}
	}
	if len(canon) < minRef {
		fmt.Fprintf(os.Stderr, "C07 harness error: only %d canonical versions for %s\n", len(canon), name)
		os.Exit(3)
	}
	if primary {
		refConsistency(g, canon)
	}
	decided, strictRef := 0, 0
	for p, i := range idx {
		for qq, j := range idx {
			want, ok := g.ref(canon[p], canon[qq])
			if !ok {
				continue
			}
			got := m2[i][j]
			if !okCell(got) {
				continue // already reported as panic / incomparable
			}
			decided++
			if want != 0 {
				strictRef++
			}
			if int(got) != want {
				x.col.add(pubKey(g, canon[p], canon[qq], int(got)), name, "pub", fmt.Sprintf("%s: cmp(%s,%s)=%d but the published ordering rules give %d", name, q(canon[p]), q(canon[qq]), got, want), canon[p], canon[qq])
			}
		}
	}
	st["p4"+fam+"_canonical"] = len(canon)
	st["p4"+fam+"_pairs_decided"] = decided
	st["p4"+fam+"_pairs_strict"] = strictRef
	if r.SampleN() < 6 && len(valid) > 3 {
		i, j := len(valid)/3, 2*len(valid)/3
		r.Sample(map[string]any{"ecosystem": name, "a": valid[i], "b": valid[j], "cmp_ab": m2[i][j], "cmp_ba": m2[j][i]})
	}
}

const rule = "for every ecosystem name: Parse/CompareStr never panic and cmp(s,s)=0 for all strings over the raw alphabet (len<=4/5) and token alphabet (<=3/4 tokens); cmp(a,b)=-cmp(b,a) for all ordered pairs of accepted token strings (<=2 tokens + all 3-token strings over a core alphabet); on generated grammar-valid versions every pair is comparable, <= is transitive and == is a congruence over all triples; canonical versions agree in sign with independent reference comparators written from the published rules; every cell of a shared probe matrix (versions with 1..5 numeric components and typical suffixes) has the same outcome in a fresh process touching only that ecosystem and in the main process after all other ecosystems handled the same strings"

func main() {
	if n := os.Getenv("VERIF_C07_PROBE"); n != "" {
		os.Exit(probeChild(n)) // P5: fresh-process probe for one ecosystem name, see hist.go
	}
	if f := os.Getenv("VERIF_REPLAY"); f != "" {
		os.Exit(replay(f))
	}
	refSelfTest()
	r := ev.Start("C07", "exploration", 5*time.Minute, 40*time.Minute)
	x := &ctx{r: r, col: newCollector()}
	stats := map[string]any{}
	names := 0
	// comparators first (simplest-first across the whole space: every comparator gets its full
	// treatment before the alias names repeat it)
	for _, g := range groups {
		if r.Expired() {
			r.Cap("deadline before comparator %s", g.id)
			break
		}
		runEcosystem(x, g, g.names[0], true, stats)
		names++
	}
	for _, g := range groups {
		for _, name := range g.names[1:] {
			if r.Expired() {
				r.Cap("deadline before alias %s", name)
				break
			}
			runEcosystem(x, g, name, false, stats)
			names++
		}
	}
	// P5 history independence, after everything else has left whatever state it leaves
	if r.Expired() {
		r.Cap("deadline before P5 (history independence)")
	} else {
		x.part5(stats)
	}
	// an unknown ecosystem must be an error, not a panic
	if v, err, p, _ := parse("no-such-ecosystem", "1.0"); p != nil || err == nil || v != nil {
		x.col.add("dispatch:unknown-ecosystem", "no-such-ecosystem", "self", fmt.Sprintf("Parse with unknown ecosystem: v=%v err=%v panic=%v", v, err, p), "1.0")
	}
	x.col.flush(r)
	r.Set("ecosystem_names", names)
	r.Set("per_ecosystem", stats)
	r.Set("observations", []string{
		"semver: a pre-release identifier '-N' (hyphen + digits, e.g. 1.0.0--1) is compared as the number -N; semver 2.0 says it is alphanumeric (higher than any numeric identifier). Outside the canonical sub-grammar, not demanded.",
		"RubyGems: '-' is kept as a string segment \"-\" whereas Gem::Version rewrites it to '.pre.' (1.0-1 vs 1.0.a1 differ in sign). Outside the canonical sub-grammar, not demanded.",
		"Packagist: an unknown stability word weighs the same as 'dev' (PHP version_compare puts it below dev). Outside the canonical sub-grammar, not demanded.",
		"Maven: cycles such as 1 < 1-sp < 1.0.alpha < 1 are reproduced from Maven's own ComparableVersion; documented don't-care.",
	})
	r.Assume("distinct_nontrivial = distinct accepted strings (64-bit FNV, per comparator) + strictly ordered pairs of S1 and S2 (per comparator)")
	r.Finish(rule, true)
}

// ---------------------------------------------------------------------------------------------
// replay

func groupOf(name string) *group {
	for _, g := range groups {
		for _, n := range g.names {
			if n == name {
				return g
			}
		}
	}
	return nil
}

func show(name, a, b string) (int8, string) {
	v, err, p, _ := parse(name, a)
	if p != nil {
		return resPanic, fmt.Sprintf("Parse(%s) PANIC %v", q(a), p)
	}
	if err != nil {
		return resErr, fmt.Sprintf("Parse(%s) error %v", q(a), err)
	}
	c, cerr, p, _ := compare(v, b)
	if p != nil {
		return resPanic, fmt.Sprintf("cmp(%s,%s) PANIC %v", q(a), q(b), p)
	}
	if cerr != nil {
		return resErr, fmt.Sprintf("cmp(%s,%s) error %v", q(a), q(b), cerr)
	}
	return int8(sgn(c)), fmt.Sprintf("cmp(%s,%s) = %d", q(a), q(b), c)
}

func replay(file string) int {
	b, err := os.ReadFile(file)
	if err != nil {
		fmt.Fprintln(os.Stderr, err)
		return 3
	}
	var doc struct {
		Key    string `json:"key"`
		What   string `json:"what"`
		Replay struct {
			Ecosystem string   `json:"ecosystem"`
			Kind      string   `json:"kind"`
			Strings   []string `json:"strings"`
		} `json:"replay"`
	}
	if err := json.Unmarshal(b, &doc); err != nil {
		fmt.Fprintln(os.Stderr, err)
		return 3
	}
	var s []string
	for _, qs := range doc.Replay.Strings {
		u, err := strconv.Unquote(qs)
		if err != nil {
			fmt.Fprintln(os.Stderr, "bad replay string:", err)
			return 3
		}
		s = append(s, u)
	}
	name, kind := doc.Replay.Ecosystem, doc.Replay.Kind
	fmt.Printf("replay %s kind=%s ecosystem=%s\nrecorded: %s\n", doc.Key, kind, name, doc.What)
	bad := false
	cell := func(a, b string) int8 {
		c, txt := show(name, a, b)
		fmt.Println("observed:", txt)
		if c == resPanic {
			bad = true
		}
		return c
	}
	need := map[string]int{"self": 1, "pair": 2, "pub": 2, "trans": 3, "congr": 3, "hist": 2}[kind]
	if need == 0 || len(s) < need {
		fmt.Fprintln(os.Stderr, "malformed replay")
		return 3
	}
	switch kind {
	case "hist":
		bad = replayHist(name, s[0], s[1])
	case "self":
		if name == "no-such-ecosystem" {
			v, err, p, _ := parse(name, s[0])
			fmt.Printf("observed: v=%v err=%v panic=%v\n", v, err, p)
			bad = p != nil || err == nil
			break
		}
		if groupOf(name) != nil && strings.Contains(doc.Key, "valid-version-rejected") {
			_, err, p, _ := parse(name, s[0])
			fmt.Printf("observed: Parse(%s) err=%v panic=%v\n", q(s[0]), err, p)
			bad = err != nil || p != nil
			break
		}
		if _, err, p, _ := parse(name, s[0]); err != nil && p == nil {
			fmt.Printf("observed: Parse(%s) rejected: %v (nothing to demand)\n", q(s[0]), err)
			break
		}
		if c := cell(s[0], s[0]); c != 0 {
			bad = true
		}
	case "pair":
		ab, ba := cell(s[0], s[1]), cell(s[1], s[0])
		if strings.Contains(doc.Key, "valid-pair-incomparable") {
			bad = bad || ab == resErr || ba == resErr
		} else if (ab == resErr) != (ba == resErr) {
			bad = true
		} else if okCell(ab) && okCell(ba) && ab != -ba {
			bad = true
		}
	case "pub":
		g := groupOf(name)
		ab := cell(s[0], s[1])
		want, ok := g.ref(s[0], s[1])
		fmt.Printf("reference: %d (decided=%v)\n", want, ok)
		if ok && okCell(ab) && int(ab) != want {
			bad = true
		}
	case "trans", "congr":
		ab, bc, ac := cell(s[0], s[1]), cell(s[1], s[2]), cell(s[0], s[2])
		if okCell(ab) && okCell(bc) && okCell(ac) {
			if ab <= 0 && bc <= 0 && ac > 0 {
				bad = true
			}
			if ab == 0 && ac != bc {
				bad = true
			}
		}
	}
	if bad {
		fmt.Println("replay: property violated")
		return 1
	}
	fmt.Println("replay: no violation observed")
	return 0
}
