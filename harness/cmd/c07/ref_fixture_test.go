package main

// Development sanity (not part of the check): the reference comparators must agree with the
// repository's fixture files (generated with the ecosystems' real tools) wherever they claim to
// decide a pair. Run: go test -tags verif ./cmd/c07 -run RefFixtures -v

import (
	"bufio"
	"os"
	"path/filepath"
	"strings"
	"testing"

	"verif/ev"
)

func TestRefFixtures(t *testing.T) {
	files := map[string][]string{
		"Alpine":    {"alpine-versions.txt", "alpine-versions-generated.txt"},
		"CRAN":      {"cran-versions.txt", "cran-versions-generated.txt"},
		"Debian":    {"debian-versions.txt", "debian-versions-generated.txt"},
		"Maven":     {"maven-versions.txt", "maven-versions-generated.txt"},
		"NuGet":     {"nuget-versions.txt"},
		"Packagist": {"packagist-versions.txt", "packagist-versions-generated.txt"},
		"PyPI":      {"pypi-versions.txt", "pypi-versions-generated.txt"},
		"RedHat":    {"redhat-versions.txt"},
		"RubyGems":  {"rubygems-versions.txt", "rubygems-versions-generated.txt"},
		"semver":    {"semver-versions.txt"},
	}
	for _, g := range groups {
		decided, total := 0, 0
		for _, f := range files[g.id] {
			fh, err := os.Open(filepath.Join(ev.RepoDir(), "semantic", "testdata", f))
			if err != nil {
				t.Fatal(err)
			}
			sc := bufio.NewScanner(fh)
			for sc.Scan() {
				line := sc.Text()
				if line == "" || strings.HasPrefix(line, "# ") || strings.HasPrefix(line, "// ") {
					continue
				}
				p := strings.Split(line, " ")
				if len(p) != 3 {
					continue
				}
				want := map[string]int{"<": -1, "=": 0, ">": 1}[p[1]]
				total++
				got, ok := g.ref(p[0], p[2])
				if !ok {
					continue
				}
				decided++
				if got != want {
					t.Errorf("%s: %s: ref says %d for %q", g.id, f, got, line)
				}
			}
			fh.Close()
		}
		t.Logf("%s: reference decided %d of %d fixture lines", g.id, decided, total)
	}
}
