// Reference comparators for the CANONICAL sub-grammar of each ecosystem, written from the
// published ordering rules (not from /repo/semantic). Every ref* function returns (sign, ok);
// ok=false means "this pair is outside what the reference is certain about" (don't-care cell).
//
// Nothing here imports the package under test and nothing uses math/big: numbers are compared as
// decimal strings so arbitrarily long numbers need no arithmetic.
package main

import (
	"regexp"
	"strings"
)

func sgn(x int) int {
	switch {
	case x < 0:
		return -1
	case x > 0:
		return 1
	}
	return 0
}

func isDigits(s string) bool {
	if s == "" {
		return false
	}
	for i := 0; i < len(s); i++ {
		if s[i] < '0' || s[i] > '9' {
			return false
		}
	}
	return true
}

// numCmp compares two non-empty decimal digit strings numerically.
func numCmp(a, b string) int {
	a = strings.TrimLeft(a, "0")
	b = strings.TrimLeft(b, "0")
	if len(a) != len(b) {
		return sgn(len(a) - len(b))
	}
	return strings.Compare(a, b)
}

// numsCmp compares dotted numeric vectors with the shorter one padded with zeros.
func numsCmp(a, b []string) int {
	n := max(len(a), len(b))
	for i := 0; i < n; i++ {
		x, y := "0", "0"
		if i < len(a) {
			x = a[i]
		}
		if i < len(b) {
			y = b[i]
		}
		if d := numCmp(x, y); d != 0 {
			return d
		}
	}
	return 0
}

func noLeadingZero(s string) bool { return s == "0" || (s != "" && s[0] != '0') }

// ---------------------------------------------------------------------------------------------
// Semantic Versioning 2.0.0 §11 (crates.io, npm, Go, Hex, Pub, ConanCenter).
// Canonical: MAJOR.MINOR.PATCH[-pre][+build], numeric parts without leading zeros, pre-release
// identifiers [0-9A-Za-z-]+ (numeric ones without leading zeros). Identifiers that start with a
// hyphen and are otherwise all digits ("-1") are left out (see don't-care list in main.go).

type semverParts struct {
	core []string
	pre  []string // nil = no pre-release
}

var semverIdent = regexp.MustCompile(`^[0-9A-Za-z-]+$`)

func parseSemverCanon(s string, minCore, maxCore int) (semverParts, bool) {
	var p semverParts
	if i := strings.IndexByte(s, '+'); i >= 0 {
		build := s[i+1:]
		s = s[:i]
		for _, id := range strings.Split(build, ".") {
			if !semverIdent.MatchString(id) {
				return p, false
			}
		}
	}
	core := s
	if i := strings.IndexByte(s, '-'); i >= 0 {
		core = s[:i]
		for _, id := range strings.Split(s[i+1:], ".") {
			if !semverIdent.MatchString(id) {
				return p, false
			}
			if isDigits(id) && !noLeadingZero(id) {
				return p, false
			}
			if id[0] == '-' && (len(id) == 1 || isDigits(strings.TrimLeft(id, "-"))) {
				return p, false // "-", "-1", "--1": don't-care
			}
			p.pre = append(p.pre, id)
		}
	}
	p.core = strings.Split(core, ".")
	if len(p.core) < minCore || len(p.core) > maxCore {
		return p, false
	}
	for _, c := range p.core {
		if !isDigits(c) || !noLeadingZero(c) {
			return p, false
		}
	}
	return p, true
}

func semverPreCmp(a, b []string, fold bool) int {
	// §11.3: a version without pre-release has higher precedence.
	if a == nil && b == nil {
		return 0
	}
	if a == nil {
		return 1
	}
	if b == nil {
		return -1
	}
	for i := 0; i < len(a) && i < len(b); i++ {
		x, y := a[i], b[i]
		if fold {
			x, y = strings.ToLower(x), strings.ToLower(y)
		}
		xd, yd := isDigits(x), isDigits(y)
		switch {
		case xd && yd: // §11.4.1
			if d := numCmp(x, y); d != 0 {
				return d
			}
		case !xd && !yd: // §11.4.2 ASCII order
			if d := strings.Compare(x, y); d != 0 {
				return d
			}
		case xd: // §11.4.3 numeric < non-numeric
			return -1
		default:
			return 1
		}
	}
	return sgn(len(a) - len(b)) // §11.4.4
}

func refSemver(a, b string) (int, bool) {
	x, ok1 := parseSemverCanon(a, 3, 3)
	y, ok2 := parseSemverCanon(b, 3, 3)
	if !ok1 || !ok2 {
		return 0, false
	}
	if d := numsCmp(x.core, y.core); d != 0 {
		return d, true
	}
	return semverPreCmp(x.pre, y.pre, false), true
}

// NuGet: SemVer 2 with an optional 4th "revision" component, missing components are 0,
// release labels compared case-insensitively (NuGet.Versioning VersionComparer).
func refNuGet(a, b string) (int, bool) {
	x, ok1 := parseSemverCanon(a, 2, 4)
	y, ok2 := parseSemverCanon(b, 2, 4)
	if !ok1 || !ok2 {
		return 0, false
	}
	if d := numsCmp(x.core, y.core); d != 0 {
		return d, true
	}
	return semverPreCmp(x.pre, y.pre, true), true
}

// ---------------------------------------------------------------------------------------------
// PEP 440 public+local versions in any accepted spelling, normalised:  [N!]N(.N)*[{a|b|rc}N][.postN][.devN][+local]
// Ordering = packaging.version._cmpkey.

// The PEP 440 Appendix B regular expression (case-insensitive), i.e. every spelling PEP 440 accepts;
// parsePEP440 applies the PEP's normalisation rules (alpha->a, beta->b, c/pre/preview->rc,
// rev/r->post, "-N" -> postN, implicit 0, any of . - _ as separator, leading v, surrounding blanks).
var pep440Canon = regexp.MustCompile(`(?i)^\s*v?(?:(?:([0-9]+)!)?([0-9]+(?:\.[0-9]+)*)(?:[-_.]?(a|b|c|rc|alpha|beta|pre|preview)[-_.]?([0-9]+)?)?(?:(?:-([0-9]+))|(?:[-_.]?(post|rev|r)[-_.]?([0-9]+)?))?(?:[-_.]?(dev)[-_.]?([0-9]+)?)?)(?:\+([a-z0-9]+(?:[-_.][a-z0-9]+)*))?\s*$`)

var pepLocalSep = regexp.MustCompile(`[-_.]`)

type pepParts struct {
	epoch   string
	release []string
	preL    string // "" none, else a|b|rc
	preN    string
	post    string // "" none
	dev     string // "" none
	local   []string
}

func orZero(s string) string {
	if s == "" {
		return "0"
	}
	return s
}

func parsePEP440(s string) (pepParts, bool) {
	m := pep440Canon.FindStringSubmatch(s)
	if m == nil {
		return pepParts{}, false
	}
	p := pepParts{epoch: orZero(m[1]), release: strings.Split(m[2], ".")}
	switch strings.ToLower(m[3]) {
	case "":
	case "a", "alpha":
		p.preL, p.preN = "a", orZero(m[4])
	case "b", "beta":
		p.preL, p.preN = "b", orZero(m[4])
	default: // c, rc, pre, preview
		p.preL, p.preN = "rc", orZero(m[4])
	}
	switch {
	case m[5] != "":
		p.post = m[5]
	case m[6] != "":
		p.post = orZero(m[7])
	}
	if m[8] != "" {
		p.dev = orZero(m[9])
	}
	if m[10] != "" {
		p.local = pepLocalSep.Split(strings.ToLower(m[10]), -1)
	}
	return p, true
}

// pre key: 0 = -inf (dev only), 1 = a, 2 = b, 3 = rc, 4 = +inf (final)
func (p pepParts) preKey() (int, string) {
	switch {
	case p.preL == "" && p.post == "" && p.dev != "":
		return 0, "0"
	case p.preL == "":
		return 4, "0"
	case p.preL == "a":
		return 1, p.preN
	case p.preL == "b":
		return 2, p.preN
	default:
		return 3, p.preN
	}
}

func refPyPI(a, b string) (int, bool) {
	x, ok1 := parsePEP440(a)
	y, ok2 := parsePEP440(b)
	if !ok1 || !ok2 {
		return 0, false
	}
	if d := numCmp(x.epoch, y.epoch); d != 0 {
		return d, true
	}
	if d := numsCmp(x.release, y.release); d != 0 { // trailing zeros insignificant
		return d, true
	}
	xk, xn := x.preKey()
	yk, yn := y.preKey()
	if xk != yk {
		return sgn(xk - yk), true
	}
	if d := numCmp(xn, yn); d != 0 {
		return d, true
	}
	// post: none = -inf
	switch {
	case x.post == "" && y.post != "":
		return -1, true
	case x.post != "" && y.post == "":
		return 1, true
	case x.post != "":
		if d := numCmp(x.post, y.post); d != 0 {
			return d, true
		}
	}
	// dev: none = +inf
	switch {
	case x.dev == "" && y.dev != "":
		return 1, true
	case x.dev != "" && y.dev == "":
		return -1, true
	case x.dev != "":
		if d := numCmp(x.dev, y.dev); d != 0 {
			return d, true
		}
	}
	// local: none = -inf; segment: numeric > alphanumeric; numeric numerically; alnum lexically; prefix shorter first
	switch {
	case x.local == nil && y.local == nil:
		return 0, true
	case x.local == nil:
		return -1, true
	case y.local == nil:
		return 1, true
	}
	for i := 0; i < len(x.local) && i < len(y.local); i++ {
		p, q := x.local[i], y.local[i]
		pd, qd := isDigits(p), isDigits(q)
		switch {
		case pd && qd:
			if d := numCmp(p, q); d != 0 {
				return d, true
			}
		case !pd && !qd:
			if d := strings.Compare(p, q); d != 0 {
				return d, true
			}
		case pd:
			return 1, true
		default:
			return -1, true
		}
	}
	return sgn(len(x.local) - len(y.local)), true
}

// ---------------------------------------------------------------------------------------------
// Debian deb-version(7): [epoch:]upstream[-revision]; algorithm = dpkg lib/dpkg/version.c verrevcmp.

var (
	debUpstream  = regexp.MustCompile(`^[0-9][0-9A-Za-z.+~]*$`)
	debUpstreamH = regexp.MustCompile(`^[0-9][0-9A-Za-z.+~-]*$`)
	debRevision  = regexp.MustCompile(`^[0-9A-Za-z.+~]+$`)
)

func parseDeb(s string) (epoch, up, rev string, ok bool) {
	epoch = "0"
	if i := strings.IndexByte(s, ':'); i >= 0 {
		epoch, s = s[:i], s[i+1:]
		if !isDigits(epoch) {
			return "", "", "", false
		}
	}
	if strings.ContainsRune(s, ':') {
		return "", "", "", false // colons in upstream: legal with an epoch but left out
	}
	if i := strings.LastIndexByte(s, '-'); i >= 0 {
		up, rev = s[:i], s[i+1:]
		if !debUpstreamH.MatchString(up) || !debRevision.MatchString(rev) {
			return "", "", "", false
		}
	} else {
		up, rev = s, "" // absent revision == "0" == "" under verrevcmp
		if !debUpstream.MatchString(up) {
			return "", "", "", false
		}
	}
	return epoch, up, rev, true
}

func debOrder(c byte) int {
	switch {
	case c >= '0' && c <= '9':
		return 0
	case (c >= 'A' && c <= 'Z') || (c >= 'a' && c <= 'z'):
		return int(c)
	case c == '~':
		return -1
	case c != 0:
		return int(c) + 256
	}
	return 0
}

func at(s string, i int) byte {
	if i < len(s) {
		return s[i]
	}
	return 0
}

func isdig(c byte) bool { return c >= '0' && c <= '9' }

func verrevcmp(a, b string) int {
	i, j := 0, 0
	for i < len(a) || j < len(b) {
		firstDiff := 0
		for (i < len(a) && !isdig(a[i])) || (j < len(b) && !isdig(b[j])) {
			ac, bc := debOrder(at(a, i)), debOrder(at(b, j))
			if ac != bc {
				return sgn(ac - bc)
			}
			i++
			j++
		}
		for at(a, i) == '0' {
			i++
		}
		for at(b, j) == '0' {
			j++
		}
		for isdig(at(a, i)) && isdig(at(b, j)) {
			if firstDiff == 0 {
				firstDiff = int(a[i]) - int(b[j])
			}
			i++
			j++
		}
		if isdig(at(a, i)) {
			return 1
		}
		if isdig(at(b, j)) {
			return -1
		}
		if firstDiff != 0 {
			return sgn(firstDiff)
		}
	}
	return 0
}

func refDebian(a, b string) (int, bool) {
	ae, au, ar, ok1 := parseDeb(a)
	be, bu, br, ok2 := parseDeb(b)
	if !ok1 || !ok2 {
		return 0, false
	}
	if d := numCmp(ae, be); d != 0 {
		return d, true
	}
	if d := verrevcmp(au, bu); d != 0 {
		return d, true
	}
	return verrevcmp(ar, br), true
}

// ---------------------------------------------------------------------------------------------
// Maven ComparableVersion restricted to N[.N[.N]][-qualifier[-N]], qualifier one of the well-known
// ones: alpha < beta < milestone < rc = cr < snapshot < "" = ga = final < sp. Trailing zero
// components are insignificant (1 == 1.0 == 1.0.0). ga/final followed by a number is left out.

var mavenCanon = regexp.MustCompile(`^(\d+(?:\.\d+){0,2})(?:-([A-Za-z]+)(?:-(\d+))?)?$`)

var mavenRank = map[string]int{"alpha": 1, "beta": 2, "milestone": 3, "rc": 4, "cr": 4, "snapshot": 5, "": 6, "ga": 6, "final": 6, "sp": 7}

type mavenParts struct {
	nums []string
	rank int
	qn   string
}

func parseMavenCanon(s string) (mavenParts, bool) {
	m := mavenCanon.FindStringSubmatch(s)
	if m == nil {
		return mavenParts{}, false
	}
	p := mavenParts{nums: strings.Split(m[1], "."), qn: "0"}
	for i, n := range p.nums {
		// ComparableVersion turns a run of digits into an integer item, so leading zeros in a
		// numeric component carry no meaning ("1.00.1" is "1.0.1", "1.01" is "1.1")
		t := strings.TrimLeft(n, "0")
		if t == "" {
			t = "0"
		}
		p.nums[i] = t
	}
	q := strings.ToLower(m[2])
	r, known := mavenRank[q]
	if !known {
		return p, false
	}
	p.rank = r
	if m[3] != "" {
		if r == 6 || !noLeadingZero(m[3]) {
			return p, false
		}
		p.qn = m[3]
	}
	return p, true
}

func refMaven(a, b string) (int, bool) {
	x, ok1 := parseMavenCanon(a)
	y, ok2 := parseMavenCanon(b)
	if !ok1 || !ok2 {
		return 0, false
	}
	if d := numsCmp(x.nums, y.nums); d != 0 {
		return d, true
	}
	if x.rank != y.rank {
		return sgn(x.rank - y.rank), true
	}
	return numCmp(x.qn, y.qn), true
}

// ---------------------------------------------------------------------------------------------
// RPM: [epoch:]version[-release], rpmvercmp() from rpm lib/rpmvercmp.c (with ~ and ^).
// Pairs where exactly one side has a release are left out.

var rpmPart = regexp.MustCompile(`^[0-9A-Za-z._+~^]+$`)

func parseRPM(s string) (epoch, ver, rel string, hasRel, ok bool) {
	epoch = "0"
	if i := strings.IndexByte(s, ':'); i >= 0 {
		epoch, s = s[:i], s[i+1:]
		if !isDigits(epoch) {
			return "", "", "", false, false
		}
	}
	if i := strings.IndexByte(s, '-'); i >= 0 {
		ver, rel, hasRel = s[:i], s[i+1:], true
		if !rpmPart.MatchString(rel) {
			return "", "", "", false, false
		}
	} else {
		ver = s
	}
	if !rpmPart.MatchString(ver) || !isdig(ver[0]) {
		return "", "", "", false, false
	}
	return epoch, ver, rel, hasRel, true
}

func isal(c byte) bool { return (c >= 'A' && c <= 'Z') || (c >= 'a' && c <= 'z') }

func rpmvercmp(a, b string) int {
	if a == b {
		return 0
	}
	i, j := 0, 0
	for i < len(a) || j < len(b) {
		for i < len(a) && !isdig(a[i]) && !isal(a[i]) && a[i] != '~' && a[i] != '^' {
			i++
		}
		for j < len(b) && !isdig(b[j]) && !isal(b[j]) && b[j] != '~' && b[j] != '^' {
			j++
		}
		if at(a, i) == '~' || at(b, j) == '~' {
			if at(a, i) != '~' {
				return 1
			}
			if at(b, j) != '~' {
				return -1
			}
			i++
			j++
			continue
		}
		if at(a, i) == '^' || at(b, j) == '^' {
			if i >= len(a) {
				return -1
			}
			if j >= len(b) {
				return 1
			}
			if a[i] != '^' {
				return 1
			}
			if b[j] != '^' {
				return -1
			}
			i++
			j++
			continue
		}
		if i >= len(a) || j >= len(b) {
			break
		}
		si, sj := i, j
		isnum := isdig(a[i])
		if isnum {
			for i < len(a) && isdig(a[i]) {
				i++
			}
			for j < len(b) && isdig(b[j]) {
				j++
			}
		} else {
			for i < len(a) && isal(a[i]) {
				i++
			}
			for j < len(b) && isal(b[j]) {
				j++
			}
		}
		one, two := a[si:i], b[sj:j]
		if one == "" {
			return -1
		}
		if two == "" {
			if isnum {
				return 1
			}
			return -1
		}
		if isnum {
			one = strings.TrimLeft(one, "0")
			two = strings.TrimLeft(two, "0")
			if len(one) != len(two) {
				return sgn(len(one) - len(two))
			}
		}
		if d := strings.Compare(one, two); d != 0 {
			return d
		}
	}
	if i >= len(a) && j >= len(b) {
		return 0
	}
	if i < len(a) {
		return 1
	}
	return -1
}

func refRedHat(a, b string) (int, bool) {
	ae, av, ar, ah, ok1 := parseRPM(a)
	be, bv, br, bh, ok2 := parseRPM(b)
	if !ok1 || !ok2 || ah != bh {
		return 0, false
	}
	if d := numCmp(ae, be); d != 0 {
		return d, true
	}
	if d := rpmvercmp(av, bv); d != 0 {
		return d, true
	}
	return rpmvercmp(ar, br), true
}

// ---------------------------------------------------------------------------------------------
// RubyGems Gem::Version#<=> on versions matching  N(.[0-9A-Za-z]+)*  (no '-').

var (
	gemCanon = regexp.MustCompile(`^[0-9]+(\.[0-9a-zA-Z]+)*$`)
	gemScan  = regexp.MustCompile(`[0-9]+|[a-zA-Z]+`)
)

func gemCanonicalSegments(s string) []string {
	segs := gemScan.FindAllString(s, -1)
	// split at the first string segment, drop trailing zeros of each half
	k := len(segs)
	for i, x := range segs {
		if !isDigits(x) {
			k = i
			break
		}
	}
	trim := func(x []string) []string {
		for len(x) > 0 && isDigits(x[len(x)-1]) && strings.TrimLeft(x[len(x)-1], "0") == "" {
			x = x[:len(x)-1]
		}
		return x
	}
	out := append([]string{}, trim(segs[:k])...)
	return append(out, trim(segs[k:])...)
}

func refRubyGems(a, b string) (int, bool) {
	if !gemCanon.MatchString(a) || !gemCanon.MatchString(b) {
		return 0, false
	}
	x, y := gemCanonicalSegments(a), gemCanonicalSegments(b)
	n := max(len(x), len(y))
	for i := 0; i < n; i++ {
		l, r := "0", "0"
		if i < len(x) {
			l = x[i]
		}
		if i < len(y) {
			r = y[i]
		}
		ld, rd := isDigits(l), isDigits(r)
		switch {
		case ld && rd:
			if d := numCmp(l, r); d != 0 {
				return d, true
			}
		case !ld && !rd:
			if d := strings.Compare(l, r); d != 0 {
				return d, true
			}
		case !ld: // String vs Numeric
			return -1, true
		default:
			return 1, true
		}
	}
	return 0, true
}

// ---------------------------------------------------------------------------------------------
// Packagist: PHP version_compare() on composer-style versions  [v]N.N[.N[.N]][-stabilityN?]
// with the same number of numeric components on both sides (composer pads to four, version_compare
// does not: different lengths are a don't-care cell).
// dev < alpha = a < beta = b < RC = rc < (release) < pl = p = patch ; "alpha" < "alpha1" (longer wins).

var packagistCanon = regexp.MustCompile(`^v?(\d+(?:\.\d+){1,3})(?:-(dev|alpha|a|beta|b|RC|rc|pl|p|patch)(\d+)?)?$`)

var packagistRank = map[string]int{"dev": 0, "alpha": 1, "a": 1, "beta": 2, "b": 2, "RC": 3, "rc": 3, "": 4, "pl": 5, "p": 5, "patch": 5}

func refPackagist(a, b string) (int, bool) {
	x := packagistCanon.FindStringSubmatch(a)
	y := packagistCanon.FindStringSubmatch(b)
	if x == nil || y == nil || hasLongNumber(a, b) {
		return 0, false // PHP compares numbers as C longs: numbers beyond 18 digits are left out
	}
	xn, yn := strings.Split(x[1], "."), strings.Split(y[1], ".")
	if len(xn) != len(yn) {
		return 0, false
	}
	if d := numsCmp(xn, yn); d != 0 {
		return d, true
	}
	xr, yr := packagistRank[x[2]], packagistRank[y[2]]
	if xr != yr {
		return sgn(xr - yr), true
	}
	switch {
	case x[3] == "" && y[3] == "":
		return 0, true
	case x[3] == "":
		return -1, true
	case y[3] == "":
		return 1, true
	}
	return numCmp(x[3], y[3]), true
}

// ---------------------------------------------------------------------------------------------
// Alpine apk: N[.N[.N]][_sufN][-rN] with the SAME number of numeric components on both sides,
// no leading zeros. alpha < beta < pre < rc < (none) < cvs < svn < git < hg < p.
// Pairs where exactly one side has -rN, or with different component counts, are left out.

var alpineCanon = regexp.MustCompile(`^(\d+(?:\.\d+){0,2})([a-z]?)(?:_(alpha|beta|pre|rc|cvs|svn|git|hg|p)(\d*))?(?:-r(\d+))?$`)

var alpineRank = map[string]int{"alpha": 0, "beta": 1, "pre": 2, "rc": 3, "": 4, "cvs": 5, "svn": 6, "git": 7, "hg": 8, "p": 9}

func refAlpine(a, b string) (int, bool) {
	x := alpineCanon.FindStringSubmatch(a)
	y := alpineCanon.FindStringSubmatch(b)
	if x == nil || y == nil {
		return 0, false
	}
	xn, yn := strings.Split(x[1], "."), strings.Split(y[1], ".")
	if len(xn) != len(yn) {
		return 0, false
	}
	for _, c := range append(append([]string{}, xn...), yn...) {
		if !noLeadingZero(c) {
			return 0, false
		}
	}
	if (x[5] == "") != (y[5] == "") {
		return 0, false
	}
	if d := numsCmp(xn, yn); d != 0 {
		return d, true
	}
	// optional single letter after the numbers: none < a < b ...; it is compared before any suffix
	if d := strings.Compare(x[2], y[2]); d != 0 {
		return d, true
	}
	xr, yr := alpineRank[x[3]], alpineRank[y[3]]
	if xr != yr {
		return sgn(xr - yr), true
	}
	if x[3] != "" {
		// an un-numbered suffix counts as 0 (apk test data: 1.3_alpha < 1.3_alpha2); "_alpha" vs
		// "_alpha0" is left out
		xs, ys := x[4], y[4]
		if (xs == "") != (ys == "") && numCmp("0"+xs, "0"+ys) == 0 {
			return 0, false
		}
		if d := numCmp("0"+xs, "0"+ys); d != 0 {
			return d, true
		}
	}
	if x[5] != "" {
		return numCmp(x[5], y[5]), true
	}
	return 0, true
}

// ---------------------------------------------------------------------------------------------
// CRAN (R package_version): 2..4 non-negative integers separated by '.' or '-', compared
// component-wise; if one is a strict prefix of the other the longer one is greater.

var cranCanon = regexp.MustCompile(`^\d+(?:[.-]\d+){1,3}$`)

func refCRAN(a, b string) (int, bool) {
	if !cranCanon.MatchString(a) || !cranCanon.MatchString(b) {
		return 0, false
	}
	x := strings.Split(strings.ReplaceAll(a, "-", "."), ".")
	y := strings.Split(strings.ReplaceAll(b, "-", "."), ".")
	for i := 0; i < len(x) && i < len(y); i++ {
		if d := numCmp(x[i], y[i]); d != 0 {
			return d, true
		}
	}
	if len(x) == len(y) {
		return 0, true
	}
	// all common components equal: the longer version is the later one (R compareVersion /
	// package_version: 1.0 < 1.0.0; CRAN archive order 0.1.0 < 0.1.0.0)
	return sgn(len(x) - len(y)), true
}

// ---------------------------------------------------------------------------------------------
// Published example chains (strictly increasing) used to self-test the references at start-up.
// A disagreement is a harness error (exit 3), never a VIOLATION.

var refChains = map[string][][]string{
	"semver": {
		{"1.0.0-alpha", "1.0.0-alpha.1", "1.0.0-alpha.beta", "1.0.0-beta", "1.0.0-beta.2", "1.0.0-beta.11", "1.0.0-rc.1", "1.0.0"}, // semver.org §11
		{"1.0.0", "2.0.0", "2.1.0", "2.1.1"},
	},
	"PyPI": {
		// PEP 440 "Summary of permitted suffixes and relative ordering"
		{"1.dev0", "1.0.dev456", "1.0a1", "1.0a2.dev456", "1.0a12.dev456", "1.0a12", "1.0b1.dev456", "1.0b2", "1.0b2.post345.dev456", "1.0b2.post345", "1.0rc1.dev456", "1.0rc1", "1.0", "1.0+abc.5", "1.0+abc.7", "1.0+5", "1.0.post456.dev34", "1.0.post456", "1.0.15", "1.1.dev1"},
		{"2012.15", "1!1.0", "1!1.1", "1!2.0"},
	},
	"Debian": {
		{"1.0~~", "1.0~~a", "1.0~", "1.0", "1.0a"}, // deb-version(7): ~~, ~~a, ~, the empty part, a
		{"1.0~rc1-1", "1.0-1", "1.0-1+b1", "1.0-2", "1.0+dfsg-1", "1:0.1-1"},
	},
	"Maven": {
		{"1.0-alpha-1", "1.0-beta-1", "1.0-milestone-1", "1.0-rc-1", "1.0-SNAPSHOT", "1.0", "1.0-sp", "1.0-sp-1", "1.0.1"},
	},
	"Red Hat": {
		{"1.0~rc1-1", "1.0-1", "1.0^git1-1", "1.0.1-1", "1:0.1-1"},
		{"1.0a-1", "1.0.1-1"},
	},
	"RubyGems": {
		{"1.0.a", "1.0.b1", "1.0.b2", "1.0.rc1", "1.0", "1.0.1"}, // Gem::Version docs: prerelease sorts before release
	},
	"NuGet": {
		{"1.0.0-alpha", "1.0.0-alpha.1", "1.0.0-beta", "1.0.0", "1.0.0.1", "1.0.1"},
	},
	"Packagist": {
		{"1.0.0-dev", "1.0.0-alpha1", "1.0.0-beta1", "1.0.0-RC1", "1.0.0", "1.0.0-p1", "1.0.1"},
	},
	"Alpine": {
		{"1.0_alpha1", "1.0_beta1", "1.0_pre1", "1.0_rc1", "1.0", "1.0_cvs1", "1.0_svn1", "1.0_git1", "1.0_hg1", "1.0_p1", "1.1"},
		{"1.0-r0", "1.0-r1", "1.0-r10"},
	},
	"CRAN": {
		{"0.1-2", "0.2-2", "1.0", "1.0.1", "1.0.2", "1.1.0"},
	},
}
