// P5 — history independence (Parse/CompareStr are pure functions of their arguments).
//
// For every ecosystem name E and every ordered pair (a,b) of two shared probe sets H and H':
//
//	fresh(E,a,b)  = outcome of Parse(a,E).CompareStr(b) in a NEW PROCESS that touches only E
//	                (this binary re-executed with VERIF_C07_PROBE=E), and
//	after(E,a,b)  = the same call in the main process after P1..P4 have run for all 16 names and
//	                after every OTHER ecosystem has parsed and compared the same strings
//	                (H is visited in forward name order, H' in reverse name order, so that for any
//	                two names X,Y each one is once the first and once the second to see a string)
//
// must be identical (value, error-ness, panic-ness). A separate process is the only way to get a
// state nothing else has touched: a cache that is never evicted makes two passes inside one
// process agree with each other while both disagree with the fresh answer.
//
// H and H' are the same shapes over disjoint digits; they contain versions with 1..5 numeric
// components for every ecosystem (2.0.0.1, 2.0.0.0, 1.2.3.4.5 ...), because comparators that share
// code split such strings differently (semver keeps 3 components, NuGet 4).
package main

import (
	"bufio"
	"bytes"
	"fmt"
	"os"
	"os/exec"
	"strings"
)

func probeSet(d0, d1, d2 string) []string {
	nums := []string{d0, d1, d2}
	out := cat(tuples(nums, 1, "."), tuples(nums, 2, "."), tuples(nums, 3, "."), tuples(nums, 4, "."), tuples([]string{d0, d1}, 5, "."))
	base := d1 + "." + d0
	for _, suf := range []string{
		"." + d0 + "-alpha", "." + d0 + "-alpha." + d1, "." + d0 + "+b" + d1, "." + d0 + "." + d1 + "-beta", "." + d0 + "." + d0 + "." + d1 + "-rc." + d2,
		"-" + d1, "-r" + d1, "_p" + d1, "_alpha" + d1, "a" + d1, "b" + d2, "rc" + d1, ".post" + d1, ".dev" + d1, "+abc." + d1, "~rc" + d1, "^git" + d1,
		".rc" + d1, ".beta." + d2, "-SNAPSHOT", ".Final", "-sp-" + d1, "-" + d1 + ".el8", "-" + d1 + "ubuntu" + d2, ".0" + d1, ".00", "-RC" + d1, "-patch" + d1, "-dev",
	} {
		out = append(out, base+suf)
	}
	out = append(out, "v"+base+"."+d0, d1+":"+base+"-"+d1, d1+"!"+base, base+"."+BIG, base+"."+d0+"."+d0+"."+d0+"."+d0+"."+d1, "", "x"+d1, d1+"..")
	return uniq(out)
}

// H uses the digits 0,1,2 (so it contains 2.0.0.1, 2.0.0.0, 1.0.0.0.1 ...); H' uses 3,4,5.
func probeSets() [2][]string {
	h := probeSet("0", "1", "2")
	h = append(h, "1.2.3.4.5", "1.2.3.4", "1.2.3", "3.0.0.7", "3.0.0")
	return [2][]string{uniq(h), probeSet("3", "4", "5")}
}

// probeMatrix evaluates all ordered pairs of xs for one ecosystem name; one text row per a.
// cell: '<' '=' '>' value, 'e' CompareStr error, 'p' panic; a row of 'E'/'P' if Parse(a) fails/panics.
func probeMatrix(name string, xs []string) ([]string, int64) {
	rows := make([]string, len(xs))
	var evals int64
	for i, a := range xs {
		v, err, p, _ := parse(name, a)
		evals++
		if p != nil || err != nil || v == nil {
			c := "E"
			if p != nil {
				c = "P"
			}
			rows[i] = strings.Repeat(c, len(xs))
			continue
		}
		var sb strings.Builder
		for _, b := range xs {
			c, cerr, p, _ := compare(v, b)
			evals++
			switch {
			case p != nil:
				sb.WriteByte('p')
			case cerr != nil:
				sb.WriteByte('e')
			default:
				sb.WriteByte("<=>"[sgn(c)+1])
			}
		}
		rows[i] = sb.String()
	}
	return rows, evals
}

func allNames() []string {
	var out []string
	for _, g := range groups {
		out = append(out, g.names[0])
	}
	for _, g := range groups {
		out = append(out, g.names[1:]...)
	}
	return out
}

// probeChild is the body of the re-executed process: nothing but the probe for one name.
func probeChild(name string) int {
	sets := probeSets()
	w := bufio.NewWriter(os.Stdout)
	for k, xs := range sets {
		rows, _ := probeMatrix(name, xs)
		for _, row := range rows {
			fmt.Fprintf(w, "%d %s\n", k, row)
		}
	}
	w.Flush()
	return 0
}

func runChild(name string) ([2][]string, error) {
	var out [2][]string
	// /proc/self/exe keeps working when the binary file is replaced or removed while we run
	exe := "/proc/self/exe"
	if _, err := os.Stat(exe); err != nil {
		var err2 error
		if exe, err2 = os.Executable(); err2 != nil {
			return out, err2
		}
	}
	cmd := exec.Command(exe)
	cmd.Env = append(os.Environ(), "VERIF_C07_PROBE="+name)
	var buf, errb bytes.Buffer
	cmd.Stdout, cmd.Stderr = &buf, &errb
	if err := cmd.Run(); err != nil {
		return out, fmt.Errorf("probe process for %s: %v: %s", name, err, errb.String())
	}
	sets := probeSets()
	for _, line := range strings.Split(strings.TrimRight(buf.String(), "\n"), "\n") {
		if len(line) < 2 || (line[0] != '0' && line[0] != '1') {
			return out, fmt.Errorf("probe process for %s: malformed output %q", name, line)
		}
		out[line[0]-'0'] = append(out[line[0]-'0'], line[2:])
	}
	for k := range sets {
		if len(out[k]) != len(sets[k]) {
			return out, fmt.Errorf("probe process for %s: %d rows for set %d, want %d", name, len(out[k]), k, len(sets[k]))
		}
	}
	return out, nil
}

// afterHistory computes the in-process matrices: H in forward name order, H' in reverse order.
func afterHistory(names []string) (map[string][2][]string, int64) {
	sets := probeSets()
	after := map[string][2][]string{}
	var evals int64
	for _, n := range names {
		rows, e := probeMatrix(n, sets[0])
		evals += e
		after[n] = [2][]string{rows, nil}
	}
	for i := len(names) - 1; i >= 0; i-- {
		rows, e := probeMatrix(names[i], sets[1])
		evals += e
		m := after[names[i]]
		m[1] = rows
		after[names[i]] = m
	}
	return after, evals
}

func cellText(c byte) string {
	switch c {
	case '<':
		return "-1"
	case '=':
		return "0"
	case '>':
		return "+1"
	case 'e', 'E':
		return "error"
	}
	return "panic"
}

func (x *ctx) part5(stats map[string]any) {
	r := x.r
	names := allNames()
	sets := probeSets()
	after, evals := afterHistory(names)
	r.Evals.Add(evals)
	fresh := make([][2][]string, len(names))
	errs := make([]error, len(names))
	done := r.ParallelFor(len(names), func(i int) { fresh[i], errs[i] = runChild(names[i]) })
	for i := 0; i < done; i++ {
		if errs[i] != nil {
			fmt.Fprintln(os.Stderr, "C07 harness error:", errs[i])
			os.Exit(3)
		}
	}
	cells, strict := 0, 0
	for i := 0; i < done; i++ {
		n := names[i]
		g := groupOf(n)
		for k := range sets {
			xs := sets[k]
			r.Evals.Add(int64(len(xs) * (len(xs) + 1)))
			for a := range xs {
				fr, af := fresh[i][k][a], after[n][k][a]
				for b := range xs {
					cells++
					if n == g.names[0] && (fr[b] == '<' || fr[b] == '>') {
						strict++ // distinct (comparator, ordered pair) cases
					}
					if fr[b] != af[b] {
						what := fmt.Sprintf("%s: cmp(%s,%s) is %s in a fresh process but %s after the other ecosystems handled the same strings", n, q(xs[a]), q(xs[b]), cellText(fr[b]), cellText(af[b]))
						x.col.add(g.id+":history-dependent", n, "hist", what, xs[a], xs[b])
					}
				}
			}
		}
	}
	r.Nontrivial.Add(int64(strict))
	stats["p5_history"] = map[string]any{"names": done, "probe_strings": []int{len(sets[0]), len(sets[1])}, "cells_compared": cells, "complete": done == len(names)}
}

// replayHist re-executes one history-dependence witness: fresh cell from a new process against
// the cell after the cross-ecosystem pass in this process.
func replayHist(name string, a, b string) (bad bool) {
	sets := probeSets()
	k, ia, ib := -1, -1, -1
	for kk, xs := range sets {
		pa, pb := -1, -1
		for i, s := range xs {
			if s == a {
				pa = i
			}
			if s == b {
				pb = i
			}
		}
		if pa >= 0 && pb >= 0 {
			k, ia, ib = kk, pa, pb
		}
	}
	if k < 0 || groupOf(name) == nil {
		fmt.Println("replay: strings are not in the probe sets")
		return false
	}
	fresh, err := runChild(name)
	if err != nil {
		fmt.Fprintln(os.Stderr, err)
		os.Exit(3)
	}
	after, _ := afterHistory(allNames())
	f, af := fresh[k][ia][ib], after[name][k][ia][ib]
	fmt.Printf("observed: fresh process: cmp(%s,%s) = %s\nobserved: after history:  cmp(%s,%s) = %s\n", q(a), q(b), cellText(f), q(a), q(b), cellText(af))
	return f != af
}
