// Phase K of C18: the per-affected-entry decision that remediation.MatchVuln (matchSeverity) takes
// when a record has no top-level severity. It is not reachable through IsAffected's hook, only
// through guidedremediation.VerifResolveManifest: a one-package universe (npm package.json /
// Maven pom.xml, built with the shared verif/universe kit), a manifest that pins the package at
// version v, a matcher that hands the record under test to the vulnerable node, and
// MinSeverity = 5. The record has two affected entries with their own severities (9.8 / 1.8):
// exactly one of them applies to v by the OSV evaluation (it lists v, or a range of it contains v
// — also when the entry has a `versions` list that does NOT contain v); the other one does not
// apply (other package, or neither listed nor in range). The vulnerability must survive the
// filter exactly when the applying entry's severity is the high one.
//
// Side by side (npm, K2): the manifest requires a1 and b1, which require the package at two different
// ladder versions (every ordered pair), so the vulnerability has two subgraphs at different
// versions; the record has one entry per installed version (plus optionally one that applies to
// neither), per-entry severities in every assignment, every entry order, three ways of writing the
// entries. HEAD's matchSeverity takes the maximum over the subgraphs' applying entries, so the
// vulnerability must survive exactly when SOME installed version's applying entry is the high one.
//
// Don't-care: records where zero or several entries apply (not generated), top-level severities,
// unknown / unparsable severity vectors.
package main

import (
	"context"
	"fmt"
	"os"
	"path/filepath"

	"github.com/google/osv-scalibr/extractor"
	"github.com/google/osv-scalibr/guidedremediation"
	"github.com/ossf/osv-schema/bindings/go/osvschema"
	"verif/ev"
	u "verif/universe"
)

const (
	kHigh        = "CVSS:3.1/AV:N/AC:L/PR:N/UI:N/S:U/C:H/I:H/A:H" // 9.8
	kLow         = "CVSS:3.1/AV:L/AC:H/PR:H/UI:R/S:U/C:L/I:N/A:N" // 1.8
	kMinSeverity = 5.0
	kRecordID    = "VERIF-C18-K"
)

// kVersions are the published versions of the single registry package (plain x.y.z only).
var kVersions = append(append([]string{}, ladder...), gapProbes...)

type kMatcher struct {
	rec  *osvschema.Vulnerability
	name string
}

func (m kMatcher) MatchVulnerabilities(_ context.Context, pkgs []*extractor.Package) ([][]*osvschema.Vulnerability, error) {
	res := make([][]*osvschema.Vulnerability, len(pkgs))
	for i, p := range pkgs {
		if p.Name == m.name {
			res[i] = []*osvschema.Vulnerability{m.rec}
		}
	}
	return res, nil
}

// kEnv is the resolved-once part of a phase K work item: ecosystem + pinned version.
type kEnv struct {
	eco  *ecoT
	c    *u.Case
	v    string
	name string // registry name of the package (record name, queried name)
	dir  string
	path string
	// installed are the versions of the package the manifest installs: {v}, or for the
	// side-by-side universes {version required by direct dependency a1, version required by b1}.
	installed []string
}

func kEcoOf(e *ecoT) string {
	if e.osv == "Maven" {
		return u.Maven
	}
	return u.NPM
}

func newKEnv(e *ecoT, v string, dir string) (*kEnv, error) {
	c := &u.Case{Eco: kEcoOf(e), Shape: "c18-phase-k", Opt: u.Opts{MinSeverity: kMinSeverity}}
	p := u.Pkg{Name: "d1"}
	for _, kv := range kVersions {
		p.Vers = append(p.Vers, u.Ver{V: kv})
	}
	c.Pkgs = []u.Pkg{p}
	c.Manifest = []u.Req{{Name: "d1", Req: v}}
	env := &kEnv{eco: e, c: c, v: v, name: c.Full("d1"), dir: dir, installed: []string{v}}
	path, err := c.PutManifest(dir, c.ManifestBytes())
	if err != nil {
		return nil, err
	}
	env.path = path
	return env, nil
}

// newKEnv2 builds the side-by-side universe (npm only): the manifest requires a1 and b1, a1
// requires the package at exactly va and b1 requires it at exactly vb, so npm installs both
// versions next to each other and the vulnerability has two subgraphs.
func newKEnv2(e *ecoT, va, vb string, dir string) (*kEnv, error) {
	c := &u.Case{Eco: u.NPM, Shape: "c18-phase-k-side-by-side", Opt: u.Opts{MinSeverity: kMinSeverity}}
	p := u.Pkg{Name: "d1"}
	for _, kv := range kVersions {
		p.Vers = append(p.Vers, u.Ver{V: kv})
	}
	c.Pkgs = []u.Pkg{p,
		{Name: "a1", Vers: []u.Ver{{V: "1.0.0", Deps: []u.Dep{{Name: "d1", Req: va}}}}},
		{Name: "b1", Vers: []u.Ver{{V: "1.0.0", Deps: []u.Dep{{Name: "d1", Req: vb}}}}}}
	c.Manifest = []u.Req{{Name: "a1", Req: "1.0.0"}, {Name: "b1", Req: "1.0.0"}}
	env := &kEnv{eco: e, c: c, v: va, name: c.Full("d1"), dir: dir, installed: []string{va, vb}}
	path, err := c.PutManifest(dir, c.ManifestBytes())
	if err != nil {
		return nil, err
	}
	env.path = path
	return env, nil
}

// run resolves the manifest with the record and reports whether the record's vulnerability was
// found at all (before filtering) and whether it survived the MinSeverity filter.
func (env *kEnv) run(aff []osvschema.Affected) (found, kept bool, err error) {
	rw, err := env.c.ReadWriter()
	if err != nil {
		return false, false, err
	}
	m, err := guidedremediation.VerifParseManifest(env.path, rw)
	if err != nil {
		return false, false, fmt.Errorf("parse: %w", err)
	}
	cl, err := env.c.Client()
	if err != nil {
		return false, false, err
	}
	ro := env.c.RemediationOptions()
	rec := &osvschema.Vulnerability{ID: kRecordID, Affected: aff}
	res, err := guidedremediation.VerifResolveManifest(context.Background(), cl, kMatcher{rec, env.name}, m, &ro)
	if err != nil {
		return false, false, fmt.Errorf("resolve: %w", err)
	}
	for _, v := range res.UnfilteredVulns {
		if v.OSV.ID != kRecordID {
			continue
		}
		// found only if the vulnerable nodes are exactly the versions the universe was built to install
		seen := map[string]bool{}
		for _, sg := range v.Subgraphs {
			seen[sg.Nodes[sg.Dependency].Version.Version] = true
		}
		found = len(seen) == len(env.installed)
		for _, iv := range env.installed {
			found = found && seen[iv]
		}
	}
	for _, v := range res.Vulns {
		kept = kept || v.OSV.ID == kRecordID
	}
	return found, kept, nil
}

func kSev(level string) []osvschema.Severity {
	if level == "high" {
		return []osvschema.Severity{{Type: osvschema.SeverityCVSSV3, Score: kHigh}}
	}
	return []osvschema.Severity{{Type: osvschema.SeverityCVSSV3, Score: kLow}}
}

// kExpected: the entries that apply to (eco,name)@v by the OSV evaluation; ok only if exactly
// one does, then keep = that entry carries the high severity.
// With several installed versions: every installed version must have exactly one applying entry;
// keep = some installed version's applying entry carries the high severity (HEAD's matchSeverity
// takes the maximum over the subgraphs).
func kExpected(eco, name string, installed []string, aff []osvschema.Affected) (keep, ok bool) {
	for _, v := range installed {
		n := 0
		for i := range aff {
			if specAffectedOSV(eco, name, v, aff[i:i+1]) {
				n++
				keep = keep || (len(aff[i].Severity) == 1 && aff[i].Severity[0].Score == kHigh)
			}
		}
		if n != 1 {
			return false, false
		}
	}
	return keep, true
}

func kToRCase(env *kEnv, aff []osvschema.Affected) *rCase {
	c := fcase{phase: "K", aff: aff, qname: env.name}.toRCase(env.eco, 0)
	c.Version = env.v
	if len(env.installed) > 1 {
		c.Installed = append([]string{}, env.installed...)
	}
	for i := range aff {
		if len(aff[i].Severity) == 1 && aff[i].Severity[0].Score == kHigh {
			c.Affected[i].Severity = "high"
		} else {
			c.Affected[i].Severity = "low"
		}
	}
	return c
}

// kCheck runs one record; returns false if the case had to be skipped (harness trouble).
func (env *kEnv) check(aff []osvschema.Affected, st *stats) {
	keep, ok := kExpected(env.eco.osv, env.name, env.installed, aff)
	if !ok {
		fmt.Fprintf(os.Stderr, "C18 harness error: phase K generated a record where not exactly one entry applies (%s@%s)\n", env.name, env.v)
		os.Exit(3)
	}
	var found, kept bool
	var err error
	pv, stack := ev.Recover(func() { found, kept, err = env.run(aff) })
	st.evals++
	if keep {
		st.affected++
	} else {
		st.notAffected++
	}
	switch {
	case pv != nil:
		st.addViol("panic:"+ev.PanicSite(stack), fmt.Sprintf("ResolveManifest panicked (%v) on %s", pv, brief(kToRCase(env, aff))), kToRCase(env, aff))
	case err != nil || !found:
		// the universe did not resolve / the matcher's record did not reach the node: not a verdict
		st.skipped++
		st.kTrouble++
	case kept != keep:
		c := kToRCase(env, aff)
		dir := "kept-although-the-applying-entry-is-below-MinSeverity"
		if keep {
			dir = "filtered-although-the-applying-entry-is-above-MinSeverity"
		}
		st.addViol("per-entry-decision-in-severity-filter:"+dir,
			fmt.Sprintf("MinSeverity=%.0f: vulnerability kept=%v, expected %v (the applying entry decides) for %s", kMinSeverity, kept, keep, brief(c)), c)
	}
}

// runPhaseK enumerates the records for one (ecosystem, pinned version).
func runPhaseK(env *kEnv, lists [][]rEvent, st *stats) (distinct int64) {
	e := env.eco
	v := env.v
	var others []string // listed instead of v: two published versions that are not v
	for _, kv := range kVersions {
		if kv != v && len(others) < 2 {
			others = append(others, kv)
		}
	}
	all := rg("ECOSYSTEM", []rEvent{{Introduced: "0"}})
	ent := func(versions []string, sev string, rs ...osvschema.Range) osvschema.Affected {
		a := entry(e.osv, env.name, versions, rs...)
		a.Severity = kSev(sev)
		return a
	}
	pair := func(applying, other func(sev string) osvschema.Affected) {
		for _, sv := range [][2]string{{"high", "low"}, {"low", "high"}} {
			env.check([]osvschema.Affected{applying(sv[0]), other(sv[1])}, st)
			env.check([]osvschema.Affected{other(sv[1]), applying(sv[0])}, st)
			distinct += 2
		}
	}
	otherPkg := func(sev string) osvschema.Affected {
		a := entry(e.osv, env.name+"-other", []string{v}, all)
		a.Severity = kSev(sev)
		return a
	}
	for _, l := range lists {
		r := rg("ECOSYSTEM", l)
		if specScan(l, v) {
			// the range contains v
			notListed := func(sev string) osvschema.Affected { return ent(others, sev) }
			pair(func(sev string) osvschema.Affected { return ent(nil, sev, r) }, otherPkg)
			pair(func(sev string) osvschema.Affected { return ent(nil, sev, r) }, notListed)
			pair(func(sev string) osvschema.Affected { return ent(others, sev, r) }, otherPkg)
			pair(func(sev string) osvschema.Affected { return ent(others, sev, r) }, notListed)
		} else {
			// the range does not contain v
			outside := func(sev string) osvschema.Affected { return ent(others, sev, r) }
			pair(func(sev string) osvschema.Affected { return ent([]string{v}, sev) }, outside)
			pair(func(sev string) osvschema.Affected { return ent([]string{others[0], v}, sev, r) }, outside)
			pair(func(sev string) osvschema.Affected { return ent([]string{v}, sev, r) }, otherPkg)
		}
	}
	return distinct
}

// runPhaseK2 enumerates the records for one side-by-side universe (a1 -> va, b1 -> vb, va != vb):
// one entry applies to the lower version only, one to the higher version only, optionally a third
// to neither; three ways of writing the entries; every order of the entries; the high severity on
// the lower-version entry, on the higher-version entry, or only on the entry that applies to neither.
func runPhaseK2(env *kEnv, st *stats) (distinct int64) {
	e := env.eco
	lo, hi := env.installed[0], env.installed[1]
	if refCmp(lo, hi) > 0 {
		lo, hi = hi, lo
	}
	const above = "11.0.0" // greater than every published version but itself
	if refCmp(hi, above) >= 0 {
		return 0
	}
	ent := func(versions []string, sev string, rs ...osvschema.Range) osvschema.Affected {
		a := entry(e.osv, env.name, versions, rs...)
		a.Severity = kSev(sev)
		return a
	}
	type style struct {
		lo, hi, none func(sev string) osvschema.Affected
	}
	styles := []style{
		{ // introduced / fixed
			func(s string) osvschema.Affected {
				return ent(nil, s, rg("ECOSYSTEM", []rEvent{{Introduced: "0"}, {Fixed: hi}}))
			},
			func(s string) osvschema.Affected {
				return ent(nil, s, rg("ECOSYSTEM", []rEvent{{Introduced: hi}, {Fixed: above}}))
			},
			func(s string) osvschema.Affected { return ent(nil, s, rg("ECOSYSTEM", []rEvent{{Introduced: above}})) }},
		{ // last_affected, closer listed first
			func(s string) osvschema.Affected {
				return ent(nil, s, rg("SEMVER", []rEvent{{LastAffected: lo}, {Introduced: "0"}}))
			},
			func(s string) osvschema.Affected {
				return ent(nil, s, rg("SEMVER", []rEvent{{LastAffected: hi}, {Introduced: hi}}))
			},
			func(s string) osvschema.Affected {
				return ent([]string{above}, s, rg("GIT", []rEvent{{Introduced: "0"}}))
			}},
		{ // explicit lists
			func(s string) osvschema.Affected { return ent([]string{lo}, s) },
			func(s string) osvschema.Affected { return ent([]string{above, hi}, s) },
			func(s string) osvschema.Affected {
				return ent([]string{above}, s, rg("ECOSYSTEM", []rEvent{{Introduced: above}}))
			}},
	}
	for _, sty := range styles {
		two := func(sl, sh string) {
			env.check([]osvschema.Affected{sty.lo(sl), sty.hi(sh)}, st)
			env.check([]osvschema.Affected{sty.hi(sh), sty.lo(sl)}, st)
			distinct += 2
		}
		two("high", "low")
		two("low", "high")
		two("low", "low")
		two("high", "high")
		for _, sv := range [][3]string{{"high", "low", "low"}, {"low", "high", "low"}, {"low", "low", "high"}} {
			three := []osvschema.Affected{sty.lo(sv[0]), sty.hi(sv[1]), sty.none(sv[2])}
			for _, pm := range perms(3) {
				env.check([]osvschema.Affected{three[pm[0]], three[pm[1]], three[pm[2]]}, st)
				distinct++
			}
		}
	}
	return distinct
}

func kWorkDir() string {
	base := "/dev/shm"
	if _, err := os.Stat(base); err != nil {
		base = "/var/tmp"
	}
	return filepath.Join(base, fmt.Sprintf("c18-k-%d", os.Getpid()))
}

// replayK re-executes one phase K record.
func replayK(c *rCase, eco *ecoT) int {
	dir := kWorkDir()
	defer os.RemoveAll(dir)
	var env *kEnv
	var err error
	if len(c.Installed) == 2 {
		env, err = newKEnv2(eco, c.Installed[0], c.Installed[1], filepath.Join(dir, "replay"))
	} else {
		env, err = newKEnv(eco, c.Version, filepath.Join(dir, "replay"))
	}
	if err != nil {
		fmt.Fprintln(os.Stderr, "replay:", err)
		return 3
	}
	if env.name != c.Name {
		fmt.Fprintf(os.Stderr, "replay: phase K queries package %q, replay file says %q\n", env.name, c.Name)
		return 3
	}
	aff := c.toOSV().Affected
	for i := range aff {
		aff[i].Severity = kSev(c.Affected[i].Severity)
	}
	keep, ok := kExpected(eco.osv, env.name, env.installed, aff)
	if !ok {
		fmt.Fprintln(os.Stderr, "replay: not exactly one entry applies; outside phase K's domain")
		return 3
	}
	found, kept, err := env.run(aff)
	fmt.Printf("replay C18 phase K (MinSeverity=%.0f)\n  case: %s\n  expected: kept=%v\n", kMinSeverity, brief(c), keep)
	if err != nil || !found {
		fmt.Printf("  could not evaluate: err=%v found=%v\n", err, found)
		return 3
	}
	fmt.Printf("  implementation: kept=%v\n", kept)
	if kept != keep {
		fmt.Println("VIOLATION reproduced")
		return 1
	}
	fmt.Println("no violation")
	return 0
}
