// C18 — affected-version decisions follow the OSV range rules.
//
// Decides guidedremediation/internal/vulns.IsAffected (through the verif hook
// guidedremediation.VerifIsAffected) against an independently written OSV
// evaluation (the specification's linear scan over the sorted events), by
// exhaustive enumeration of a finite record space, per ecosystem npm / Maven / PyPI:
//
//	ladder  6 versions 1.0.0 < 1.0.2 < 1.1.0 < 1.10.0 < 2.0.0 < 10.0.0 (plain numeric x.y.z,
//	        ordered identically by semver, Maven and PEP 440; 1.10.0 and 10.0.0 make the
//	        ordering numeric rather than lexicographic)
//	probes  the 6 ladder versions, one version below, one above, one inside each of the 5 gaps,
//	        for Maven/PyPI the equivalent spellings "1.0" (=1.0.0) and "2" (=2.0.0), and one
//	        valid version below 0.0.0 (npm 0.0.0-alpha, Maven 0-alpha, PyPI 0.dev0) which only
//	        the special introduced "0" precedes
//	lists   every well-formed event list of length <= 4 (quick) / <= 5 (thorough): once ordered
//	        the events alternate introduced, fixed|last_affected, introduced, ... starting with
//	        introduced; introduced is "0" (first only) or a ladder version; closers are ladder
//	        versions; introduced < fixed, introduced <= last_affected (equality = exactly one
//	        affected version), closer < next introduced. Each list is LISTED IN EVERY PERMUTATION.
//	phase A one affected entry, one range; type ECOSYSTEM, SEMVER (npm only), GIT
//	phase B one affected entry, two ranges (r1 any permuted list of <= 2 (quick) / <= 4 (thorough)
//	        events, r2 any permuted list of <= 2 events, both orders, every type pair; for r1 of
//	        4 events only the type pairs without GIT)
//	phase C two affected entries: C1 a matching entry (range of <= 3 / <= 4 events, permuted) plus a
//	        decoy entry for another package name and/or another ecosystem that would match
//	        everything (both orders; decoy alone); C2 two entries for the queried package
//	        (affected iff any; first <= 2 / <= 3 events, second <= 2 events or a versions list)
//	phase E one range (ECOSYSTEM, SEMVER for npm) whose events on 1.0.0 / 2.0.0 are written in
//	        alternative spellings of the same version, chosen independently per event (npm
//	        v1.0.0, 1.0.0+build; Maven/PyPI 1.0, 1; likewise for 2.0.0), every list of phase A,
//	        every spelling assignment, every permutation
//	phase F the zero zone: ranges over a ladder b1 < b2 < zero < 1.0.0 < 2.0.0 (b1, b2 valid versions
//	        below zero: npm 0.0.0-alpha/-beta, Maven 0-alpha/0-beta, PyPI 0.dev0/0a1; plus the
//	        sentinel introduced "0"), version zero written in events as 0.0.0 / 0.0 / 00 (npm:
//	        0.0.0 / v0.0.0 / 0.0.0+build), every list of <= 4 / <= 5 events, every spelling, every
//	        permutation; queried with b1, b2, every spelling of zero INCLUDING the literal "0"
//	        (Maven, PyPI), and versions around 1.0.0 / 2.0.0
//	phase J record ecosystems: for every ecosystem X, entries whose ecosystem string is X, another
//	        known ecosystem, X + ":suffix" ("Maven:https://repo...", "npm:", "PyPI:x", "X:12"),
//	        other letter case, padded, truncated, empty, unknown; alone and next to an exact-X entry
//	        in both orders; x every probe x {match-everything, versions-only, every range of <= 2 events}
//	phase K (phasek.go) the per-entry decision inside remediation.MatchVuln's severity filter, driven
//	        through VerifResolveManifest on a one-package universe (npm, Maven): two-entry records
//	        with per-entry severities where exactly one entry applies (listed, or in range while a
//	        versions list that omits the version is present, ...), every range of <= 2 events,
//	        every pinned version of the ladder and gaps, both entry orders, both severity assignments
//	phase I the signature zone: per ecosystem a ladder whose ORDER only that ecosystem defines that way
//	        (npm 1.0.0-1 < 1.0.0-rc.1 < 1.0.0 < 1.0.2; Maven 1.0.0-rc1 < 1.0.0 < 1.0.0-sp1 < 1.0.2;
//	        PyPI 1.0.0.dev1 < 1.0.0rc1 < 1.0.0 < 1.0.0.post1 < 1.0.2), every list, every permutation,
//	        queried with the ladder versions and 0.9.0 / 1.0.1 / 2.0.0: the comparison applied to a
//	        record of ecosystem X must be X's
//	phase G explicit `versions` lists holding strings an ecosystem grammar rejects ("2004d",
//	        "0.1dev-r1716", ..., and strings a one-sided normalisation would alter: "v1.0.0", "1.0.0+build",
//	        " 1.0.0", "1.0.0.RELEASE", ...), queried with that same string: alone, among others, in a second
//	        entry, next to decoy entries, next to every permuted range of <= 2 events of every type
//	        (listed => affected); and not listed with no range at all (=> not affected)
//	phase H package names: per ecosystem an alphabet of names (plain, with '.', '_', '-', mixed case,
//	        repeated separators, npm scopes, Maven group:artifact variants); every (queried name,
//	        record name) pair x every probe x {match-everything entry, versions-only entry, every
//	        range of <= 2 events, other-name entry next to a queried-name entry in both orders,
//	        same name in another ecosystem}
//	phase D explicit `versions` lists (every subset of size <= 2 of the probe set) alone or
//	        next to a range (<= 2 / <= 3 events, permuted) of type ECOSYSTEM / GIT
//
// Oracle: specScan (OSV "evaluation" pseudo-code) with refCmp, a 3-integer comparison written
// here; a second, declarative formulation (declAffected: v lies in an [introduced, closer)
// interval) is cross-checked against specScan on every canonical (range, probe) pair and the
// run aborts with exit 3 (harness error) if the two ever disagree.
//
// Cause keys name the root cause, found by re-running the failing record's parts through the
// implementation: a decoy entry, a range of non-matching type, one misjudged range (keyed by where
// the version sits relative to the ordered events), the versions list, or only the combination.
// One variant model is carried for attribution only: "events on the same version keep their listed
// order" (key tie-introduced-eq-last_affected:listed-order-decides).
//
// Don't-care cells (never generated, or skipped where noted):
//   - SEMVER-typed ranges for Maven / PyPI ("a range of a matching type": the statement does not say
//     whether SEMVER is a matching type there).
//   - malformed event lists: two introduced in a row, closer first, duplicate "0", `limit` events,
//     `fixed` on the same version as an `introduced` (empty interval or re-introduction at the fix
//     version: the ordering of the two tied events is not defined by the specification).
//   - package versions or event versions that the ecosystem cannot parse; pre-release / build /
//     epoch / qualifier syntax in general (ordering belongs to C07) — except the below-zero versions
//     of phase F and the short signature ladders of phase I, whose order follows directly from
//     each ecosystem's own specification (semver 2.0 §11, Maven ComparableVersion qualifier order,
//     PEP 440 dev < rc < final < post).
//   - explicit `versions` entry that is version-equal but not string-equal to the queried version
//     ("1.0.0" listed, "1.0" queried) when no range makes the version affected: the specification
//     does not say whether the list is matched by string or by version equality — skipped, counted
//     in coverage key dont_care_skipped.
//   - Maven "00": the deps.dev Maven comparison that IsAffected relies on orders it inconsistently
//     (00 == 0, 00 == 0-alpha, 00 == 0-beta, yet 0-alpha < 0-beta < 0); that is a property of the
//     external comparison (C07's subject), not of the range evaluation, so "00" is used for PyPI only.
//     npm "0" / "0.0" / "00" are not valid semver; npm is queried with 0.0.0 and 0.0.0+build instead.
//   - a version the ecosystem cannot parse that is NOT listed explicitly while ranges are present
//     (phase G only generates: listed explicitly => affected; not listed and no range => not affected).
//   - PyPI package names that differ but are equal under PEP 503 (lower-case, runs of '-', '_', '.'
//     collapsed): whether such a record matches is not stated. Phase H skips exactly those (record
//     name, queried name) pairs, counted in dont_care_skipped. npm and Maven define no such
//     equivalence: there any byte-wise difference (case, '-' vs '_' vs '.') is another package and
//     must not match. Byte-identical names must match everywhere.
//   - the record ecosystem "Maven:https://repo.maven.apache.org/maven2" (the OSV schema says an
//     omitted Maven suffix means Maven Central, so it arguably equals plain "Maven"): not generated.
//     Every other ecosystem string that is not byte-identical to the package's ecosystem — other
//     ":suffix" forms, other letter case, padded, empty, unknown — is another ecosystem and must
//     not match (phase J); nothing on HEAD documents any of them as equal.
package main

import (
	"encoding/json"
	"fmt"
	"os"
	"path/filepath"
	"runtime"
	"sort"
	"strconv"
	"strings"
	"sync/atomic"
	"time"

	"deps.dev/util/resolve"
	"github.com/google/osv-scalibr/extractor"
	"github.com/google/osv-scalibr/guidedremediation"
	"github.com/ossf/osv-schema/bindings/go/osvschema"
	"verif/ev"
)

// ---------------------------------------------------------------------------
// Record representation used by the generator, the oracle and replay files.

// rEvent is osvschema.Event (JSON: introduced / fixed / last_affected, omitempty).
type rEvent = osvschema.Event

type rRange struct {
	Type   string   `json:"type"`
	Events []rEvent `json:"events"`
}

type rAffected struct {
	Ecosystem string   `json:"ecosystem"`
	Name      string   `json:"name"`
	Versions  []string `json:"versions,omitempty"`
	Ranges    []rRange `json:"ranges,omitempty"`
	Severity  string   `json:"severity,omitempty"` // phase K only: "high" (9.8) / "low" (1.8)
}

type rCase struct {
	Phase     string      `json:"phase"`
	Ecosystem string      `json:"ecosystem"`
	Name      string      `json:"name"`
	Version   string      `json:"version"`
	Installed []string    `json:"installed,omitempty"` // phase K side-by-side: versions required by a1, b1
	Affected  []rAffected `json:"affected"`
}

func (c *rCase) toOSV() *osvschema.Vulnerability {
	v := &osvschema.Vulnerability{ID: "VERIF-C18"}
	for _, a := range c.Affected {
		oa := osvschema.Affected{Package: osvschema.Package{Ecosystem: a.Ecosystem, Name: a.Name}}
		if a.Versions != nil {
			oa.Versions = append([]string{}, a.Versions...)
		}
		for _, rg := range a.Ranges {
			or := osvschema.Range{Type: osvschema.RangeType(rg.Type)}
			or.Events = append([]rEvent{}, rg.Events...)
			oa.Ranges = append(oa.Ranges, or)
		}
		v.Affected = append(v.Affected, oa)
	}
	return v
}

// ---------------------------------------------------------------------------
// Reference version comparison: plain dotted non-negative integers, missing
// components are zero. Only ever applied to the ladder/probe strings below.

// ver is major, minor, patch and a sub-rank within the patch level (0 = the release itself,
// negative = pre-releases, positive = post-release qualifiers; only set through verCache).
type ver [4]int

func refParse(s string) (ver, bool) {
	var v ver
	parts := strings.Split(s, ".")
	if len(parts) == 0 || len(parts) > 3 {
		return v, false
	}
	for i, p := range parts {
		n, err := strconv.Atoi(p)
		if err != nil || n < 0 || (len(p) > 1 && p[0] == '0') {
			return v, false
		}
		v[i] = n
	}
	return v, true
}

var verCache = map[string]ver{} // filled in init, read-only afterwards

func parses(s string) bool { _, ok := refParse(s); return ok }

// known reports whether the reference comparison can order s.
func known(s string) bool { _, ok := verCache[s]; return ok || parses(s) }

// decidableWithoutOrder reports whether the verdict for c follows from string equality alone:
// the version is listed explicitly by an entry for the package, or no entry for the package has
// any range.
func decidableWithoutOrder(c *rCase) bool {
	ranges := false
	for _, a := range c.Affected {
		if a.Ecosystem != c.Ecosystem || a.Name != c.Name {
			continue
		}
		for _, lv := range a.Versions {
			if lv == c.Version {
				return true
			}
		}
		ranges = ranges || len(a.Ranges) > 0
	}
	return !ranges
}

func mustVer(s string) ver {
	if v, ok := verCache[s]; ok {
		return v
	}
	v, ok := refParse(s)
	if !ok {
		fmt.Fprintf(os.Stderr, "C18 harness error: reference comparison cannot parse %q\n", s)
		os.Exit(3)
	}
	return v
}

func refCmp(a, b string) int {
	x, y := mustVer(a), mustVer(b)
	for i := 0; i < 4; i++ {
		if x[i] != y[i] {
			if x[i] < y[i] {
				return -1
			}
			return 1
		}
	}
	return 0
}

// ---------------------------------------------------------------------------
// Oracle 1: the OSV specification's evaluation, linear scan.

type oEvent = osvschema.Event

func evVersion(e oEvent) string {
	switch {
	case e.Introduced != "":
		return e.Introduced
	case e.Fixed != "":
		return e.Fixed
	}
	return e.LastAffected
}

func cmpEvents(a, b oEvent) int {
	x, y := evVersion(a), evVersion(b)
	var c int
	switch {
	case x == "0" && y == "0":
		c = 0
	case x == "0":
		c = -1
	case y == "0":
		c = 1
	default:
		c = refCmp(x, y)
	}
	if c != 0 {
		return c
	}
	if a.Introduced != "" && b.Introduced == "" {
		return -1
	}
	if a.Introduced == "" && b.Introduced != "" {
		return 1
	}
	return 0
}

// specSortedInto orders events by version, "0" before every version. Among events
// on the same version an `introduced` comes first (the only tie a well-formed
// list can contain is introduced X / last_affected X, whose alternating order
// is introduced first). Stable insertion sort into buf.
func specSortedInto(buf []oEvent, events []oEvent) []oEvent {
	out := append(buf[:0], events...)
	for i := 1; i < len(out); i++ {
		for j := i; j > 0 && cmpEvents(out[j], out[j-1]) < 0; j-- {
			out[j], out[j-1] = out[j-1], out[j]
		}
	}
	return out
}

func specSorted(events []oEvent) []oEvent { return specSortedInto(nil, events) }

func geq(v, e string) bool { return e == "0" || refCmp(v, e) >= 0 }
func gt(v, e string) bool  { return e == "0" || refCmp(v, e) > 0 }

func specScan(events []oEvent, v string) bool {
	var buf [8]oEvent
	vulnerable := false
	for _, e := range specSortedInto(buf[:], events) {
		if e.Introduced != "" && geq(v, e.Introduced) {
			vulnerable = true
		} else if e.Fixed != "" && geq(v, e.Fixed) {
			vulnerable = false
		} else if e.LastAffected != "" && gt(v, e.LastAffected) {
			vulnerable = false
		}
	}
	return vulnerable
}

func typeMatches(eco, typ string) bool {
	switch typ {
	case "ECOSYSTEM":
		return true
	case "SEMVER":
		return eco == "npm" // only generated for npm
	}
	return false // GIT ranges are never evaluated against package versions
}

// specAffectedOSV is IsVulnerable of the specification for package (eco,name) at version v.
func specAffectedOSV(eco, name, v string, affected []osvschema.Affected) bool {
	for i := range affected {
		a := &affected[i]
		if a.Package.Ecosystem != eco || a.Package.Name != name {
			continue
		}
		for _, lv := range a.Versions {
			if lv == v {
				return true
			}
		}
		for j := range a.Ranges {
			rg := &a.Ranges[j]
			if typeMatches(a.Package.Ecosystem, string(rg.Type)) && specScan(rg.Events, v) {
				return true
			}
		}
	}
	return false
}

func specAffected(c *rCase) bool {
	return specAffectedOSV(c.Ecosystem, c.Name, c.Version, c.toOSV().Affected)
}

// Oracle 2 (cross-check of oracle 1 only): the statement's interval wording. v is affected by
// a range iff some introduced event i has i <= v ("0" precedes everything) and the closer that
// follows i in the ordered list, if any, does not close before/at v.
func declAffected(events []oEvent, v string) bool {
	s := specSorted(events)
	for k := 0; k < len(s); k += 2 {
		i := s[k]
		if i.Introduced == "" {
			return false
		}
		if !geq(v, i.Introduced) {
			continue
		}
		if k+1 == len(s) {
			return true
		}
		cl := s[k+1]
		if cl.Fixed != "" && refCmp(v, cl.Fixed) < 0 {
			return true
		}
		if cl.LastAffected != "" && refCmp(v, cl.LastAffected) <= 0 {
			return true
		}
	}
	return false
}

// variantListedTieOrder is the specification scan WITHOUT the tie rule of specSorted: events on
// the same version stay in the order in which the record lists them. Used only to attribute a
// mismatch to one root cause (cause key), never to accept one.
//
// identicalFirst = true gives the second attribution variant: events on the same version spelled
// with the SAME string are ordered introduced-first (as the specification wants), only ties
// between different spellings of one version ("1.0" / "1.0.0") keep their listed order.
func variantListedTieOrder(c *rCase, identicalFirst bool) bool {
	for _, a := range c.Affected {
		if a.Ecosystem != c.Ecosystem || a.Name != c.Name {
			continue
		}
		for _, lv := range a.Versions {
			if lv == c.Version {
				return true
			}
		}
		for _, rg := range a.Ranges {
			if !typeMatches(a.Ecosystem, rg.Type) {
				continue
			}
			out := append([]rEvent{}, rg.Events...)
			sort.SliceStable(out, func(i, j int) bool {
				x, y := evVersion(out[i]), evVersion(out[j])
				if x == "0" {
					return y != "0"
				}
				if y == "0" {
					return false
				}
				if identicalFirst && x == y {
					return out[i].Introduced != "" && out[j].Introduced == ""
				}
				return refCmp(x, y) < 0
			})
			// decision of a "look at the nearest event at or below v" evaluator
			last := -1
			for k, e := range out {
				if geq(c.Version, evVersion(e)) {
					last = k
				}
			}
			if last < 0 {
				continue
			}
			e := out[last]
			on := evVersion(e) != "0" && refCmp(c.Version, evVersion(e)) == 0
			if on {
				// any event on exactly this version that includes it
				for _, t := range out {
					if evVersion(t) != "0" && refCmp(evVersion(t), c.Version) == 0 && (t.Introduced != "" || t.LastAffected != "") {
						return true
					}
				}
				continue
			}
			if e.Introduced != "" {
				return true
			}
		}
	}
	return false
}

// ---------------------------------------------------------------------------
// The finite space.

var ladder = []string{"1.0.0", "1.0.2", "1.1.0", "1.10.0", "2.0.0", "10.0.0"}
var gapProbes = []string{"0.9.0", "1.0.1", "1.0.10", "1.2.0", "1.11.0", "9.0.0", "11.0.0"}
var aliasProbes = []string{"1.0", "2"} // Maven, PyPI only

// weird are version strings that at least one ecosystem's grammar rejects (legacy PyPI releases
// and the like). Phase G only uses them where the verdict does not depend on any ordering: the
// explicit `versions` list is matched by string equality.
// The second half are strings a one-sided normalisation (trim a "v", drop build metadata, trim
// space, fold case, drop ".RELEASE") would change.
var weird = []string{"2004d", "0.1dev-r1716", "1.0-SNAPSHOT", "not a version", "v1.0.0", "V2.0", "1.0.0+build", " 1.0.0", "1.0.0.RELEASE", "1.0.0-RC1"}

// companions are listed next to / instead of the queried weird string; none of them is equal to
// any weird string under any ecosystem's version equality.
var companions = []string{"2004d", "0.1dev-r1716", "not a version", "3.1.4"}

type ecoT struct {
	osv     string
	sys     resolve.System
	name    string
	other   string // another package name in the same ecosystem
	preZero string // a valid version of the ecosystem that sorts below 0 / 0.0.0 (only introduced "0" precedes it)
	// spell[pos] lists the spellings of ladder[pos-1] usable in events; index 0 is the ladder string.
	// Every spelling is the same version under the ecosystem's rules (and under deps.dev semver,
	// which IsAffected uses): npm ignores a leading "v" and build metadata, Maven and PEP 440
	// ignore trailing zero components.
	spell map[int][]string
	// zero zone (phase F): zlad is a 5-step ladder b1 < b2 < zero < 1.0.0 < 2.0.0 where b1, b2 are
	// valid versions of the ecosystem below version zero; zspell[3] are the spellings of version
	// zero usable in EVENTS (never the literal "0", which as `introduced` is the sentinel and is
	// not defined by the specification for closers); zq are the queried versions of phase F,
	// including the literal "0" where the ecosystem accepts it.
	// signature zone (phase I): slad is a strictly increasing ladder of versions whose ORDER is
	// specific to the ecosystem (another ecosystem's comparator orders or rejects them differently);
	// srank gives the reference sub-rank of each entry; sq are the queried versions.
	slad   []string
	srank  []ver
	sq     []string
	sqIdx  []int
	zlad   []string
	zspell map[int][]string
	zq     []string
	// allProbes = probes (phases A-E) + the extra queried versions of phases F and G; pkgs
	// parallels allProbes. zqIdx / weirdIdx index into allProbes.
	allProbes []string
	// names is the package-name alphabet of phase H; plain is a lower-case alphanumeric name
	// outside the alphabet used when attributing a mismatch to the name comparison.
	names    []string
	plain    string
	zqIdx    []int
	weirdIdx []int
	types    []string
	probes   []string
	pkgs     []*extractor.Package
	isAlias  []bool
}

var ecos = []*ecoT{
	{osv: "npm", sys: resolve.NPM, name: "left-pad", other: "right-pad", plain: "plainpkg",
		names: []string{"leftpad", "left-pad", "left_pad", "left.pad", "Left-Pad", "lodash.merge", "@scope/left-pad", "@scope/pkg", "@Scope/left_pad", "JSONStream"}, preZero: "0.0.0-alpha", spell: map[int][]string{1: {"1.0.0", "v1.0.0", "1.0.0+build"}, 5: {"2.0.0", "v2.0.0", "2.0.0+build"}},
		slad: []string{"1.0.0-1", "1.0.0-rc.1", "1.0.0", "1.0.2"}, srank: []ver{{1, 0, 0, -2}, {1, 0, 0, -1}, {1, 0, 0, 0}, {1, 0, 2, 0}},
		zlad: []string{"0.0.0-alpha", "0.0.0-beta", "0.0.0", "1.0.0", "2.0.0"}, zspell: map[int][]string{3: {"0.0.0", "v0.0.0", "0.0.0+build"}},
		zq: []string{"0.0.0-alpha", "0.0.0-beta", "0.0.0", "0.0.0+build", "0.9.0", "1.0.0", "1.0.2", "2.0.0", "9.0.0"}, types: []string{"ECOSYSTEM", "SEMVER", "GIT"}},
	{osv: "Maven", sys: resolve.Maven, name: "com.example:alpha", other: "com.example:beta", plain: "plaingroup:plainpkg",
		names: []string{"com.example:alpha", "com.example:alpha-core", "com.example:alpha_core", "com.example:alpha.core", "com.example.alpha:core", "org.Example:Alpha-Core", "com.example:Alpha", "io.github.some-org:some_lib.x"}, preZero: "0-alpha", spell: map[int][]string{1: {"1.0.0", "1.0", "1"}, 5: {"2.0.0", "2.0", "2"}},
		slad: []string{"1.0.0-rc1", "1.0.0", "1.0.0-sp1", "1.0.2"}, srank: []ver{{1, 0, 0, -1}, {1, 0, 0, 0}, {1, 0, 0, 1}, {1, 0, 2, 0}},
		zlad: []string{"0-alpha", "0-beta", "0.0.0", "1.0.0", "2.0.0"}, zspell: map[int][]string{3: {"0.0.0", "0.0"}},
		zq: []string{"0-alpha", "0-beta", "0", "0.0", "0.0.0", "0.9.0", "1.0.0", "1.0.2", "2.0.0", "9.0.0"}, types: []string{"ECOSYSTEM", "GIT"}},
	{osv: "PyPI", sys: resolve.PyPI, name: "alpha-lib", other: "beta-lib", plain: "plainpkg",
		names: []string{"alphalib", "alpha-lib", "alpha_lib", "alpha.lib", "Alpha-Lib", "zope.interface", "typing_extensions", "Flask_Cors", "flask-cors", "ruamel.yaml.clib", "a-b__c..d"}, preZero: "0.dev0", spell: map[int][]string{1: {"1.0.0", "1.0", "1"}, 5: {"2.0.0", "2.0", "2"}},
		slad: []string{"1.0.0.dev1", "1.0.0rc1", "1.0.0", "1.0.0.post1", "1.0.2"}, srank: []ver{{1, 0, 0, -2}, {1, 0, 0, -1}, {1, 0, 0, 0}, {1, 0, 0, 1}, {1, 0, 2, 0}},
		zlad: []string{"0.dev0", "0a1", "0.0.0", "1.0.0", "2.0.0"}, zspell: map[int][]string{3: {"0.0.0", "0.0", "00"}},
		zq: []string{"0.dev0", "0a1", "0", "0.0", "0.0.0", "00", "0.9.0", "1.0.0", "1.0.2", "2.0.0", "9.0.0"}, types: []string{"ECOSYSTEM", "GIT"}},
}

func initSpace() {
	for _, s := range append(append(append([]string{}, ladder...), gapProbes...), aliasProbes...) {
		v, ok := refParse(s)
		if !ok {
			fmt.Fprintf(os.Stderr, "C18 harness error: bad version literal %q\n", s)
			os.Exit(3)
		}
		verCache[s] = v
	}
	// the ladder must be strictly increasing and every gap probe must sit where intended
	for i := 0; i+1 < len(ladder); i++ {
		if refCmp(ladder[i], ladder[i+1]) >= 0 {
			fmt.Fprintln(os.Stderr, "C18 harness error: ladder not increasing")
			os.Exit(3)
		}
	}
	for _, e := range ecos {
		e.probes = append(append([]string{}, ladder...), gapProbes...)
		// one pre-release of version zero: below every ladder version and below 0.0.0 in its
		// ecosystem, preceded only by the special introduced "0". The reference comparison
		// represents it as (-2,0,0); outside phase F it is never used as an event version.
		e.probes = append(e.probes, e.preZero)
		if e.zlad[0] != e.preZero || e.zlad[2] != e.zspell[3][0] {
			fmt.Fprintln(os.Stderr, "C18 harness error: zero-zone tables inconsistent")
			os.Exit(3)
		}
		verCache[e.zlad[0]] = ver{-2, 0, 0}
		verCache[e.zlad[1]] = ver{-1, 0, 0}
		for _, z := range append(append([]string{}, e.zspell[3]...), "0", "0.0", "0.0.0", "00") {
			verCache[z] = ver{0, 0, 0}
		}
		// alternative spellings are, by definition here, the ladder version they spell
		for pos, sp := range e.spell {
			if sp[0] != ladder[pos-1] {
				fmt.Fprintln(os.Stderr, "C18 harness error: spelling table does not start with the ladder string")
				os.Exit(3)
			}
			for _, alt := range sp[1:] {
				verCache[alt] = verCache[ladder[pos-1]]
			}
		}
		if e.osv != "npm" {
			e.probes = append(e.probes, aliasProbes...)
		}
		e.allProbes = append([]string{}, e.probes...)
		idxOf := func(v string) int {
			for i, p := range e.allProbes {
				if p == v {
					return i
				}
			}
			e.allProbes = append(e.allProbes, v)
			return len(e.allProbes) - 1
		}
		for _, q := range e.zq {
			if _, ok := verCache[q]; !ok {
				fmt.Fprintf(os.Stderr, "C18 harness error: zero-zone query %q unknown to the reference comparison\n", q)
				os.Exit(3)
			}
			e.zqIdx = append(e.zqIdx, idxOf(q))
		}
		for _, w := range weird {
			e.weirdIdx = append(e.weirdIdx, idxOf(w))
		}
		for i, v := range e.slad {
			if old, ok := verCache[v]; ok && old != e.srank[i] {
				fmt.Fprintf(os.Stderr, "C18 harness error: signature ladder rank of %q conflicts\n", v)
				os.Exit(3)
			}
			verCache[v] = e.srank[i]
			if i > 0 && refCmp(e.slad[i-1], v) >= 0 {
				fmt.Fprintln(os.Stderr, "C18 harness error: signature ladder not increasing")
				os.Exit(3)
			}
		}
		e.sq = append(append([]string{}, e.slad...), "0.9.0", "1.0.1", "2.0.0")
		for _, q := range e.sq {
			e.sqIdx = append(e.sqIdx, idxOf(q))
		}
		for _, p := range e.allProbes {
			e.pkgs = append(e.pkgs, guidedremediation.VerifVKToPackage(resolve.VersionKey{
				PackageKey:  resolve.PackageKey{System: e.sys, Name: e.name},
				VersionType: resolve.Concrete, Version: p}))
			alias := false
			for _, a := range aliasProbes {
				alias = alias || a == p
			}
			e.isAlias = append(e.isAlias, alias)
		}
	}
}

// pe is one event of a canonical list: kind 'i','f','l'; pos 0 = "0", 1..6 = ladder[pos-1].
type pe struct {
	kind byte
	pos  int
}

func (p pe) event() rEvent { return p.eventOn(ladder) }

func (p pe) eventOn(lad []string) rEvent {
	s := "0"
	if p.pos > 0 {
		s = lad[p.pos-1]
	}
	switch p.kind {
	case 'i':
		return rEvent{Introduced: s}
	case 'f':
		return rEvent{Fixed: s}
	}
	return rEvent{LastAffected: s}
}

type canon struct {
	id  int
	evs []pe
	str string
	// perms of indices, generated lazily per use
}

func canonStr(evs []pe) string {
	var b strings.Builder
	for _, e := range evs {
		b.WriteByte(e.kind)
		b.WriteByte(byte('0' + e.pos))
	}
	return b.String()
}

// genCanon enumerates every well-formed list of length 1..maxLen in canonical (sorted) order,
// shortest first.
func genCanon(maxLen int) []*canon { return genCanonN(len(ladder), maxLen) }

// genCanonN does the same over an abstract ladder of n positions.
func genCanonN(n, maxLen int) []*canon {
	var out []*canon
	var rec func(cur []pe, want int)
	rec = func(cur []pe, want int) {
		if len(cur) == want {
			c := &canon{evs: append([]pe{}, cur...)}
			c.str = canonStr(c.evs)
			out = append(out, c)
			return
		}
		if len(cur)%2 == 0 { // introduced
			lo := 0
			if len(cur) > 0 {
				lo = cur[len(cur)-1].pos + 1 // strictly after the previous closer
			}
			for p := lo; p <= n; p++ {
				rec(append(cur, pe{'i', p}), want)
			}
			return
		}
		ip := cur[len(cur)-1].pos
		for p := ip + 1; p <= n; p++ { // fixed strictly after introduced
			rec(append(cur, pe{'f', p}), want)
		}
		lo := ip
		if lo == 0 {
			lo = 1
		}
		for p := lo; p <= n; p++ { // last_affected at or after introduced
			rec(append(cur, pe{'l', p}), want)
		}
	}
	for l := 1; l <= maxLen; l++ {
		rec(nil, l)
	}
	for i, c := range out {
		c.id = i
	}
	return out
}

// permutations of 0..n-1 in lexicographic order (identity first).
var permCache [6][][]int

func perms(n int) [][]int {
	return permCache[n]
}

func initPerms() {
	for n := 0; n <= 5; n++ {
		var out [][]int
		idx := make([]int, n)
		for i := range idx {
			idx[i] = i
		}
		for {
			out = append(out, append([]int{}, idx...))
			// next lexicographic permutation
			i := n - 2
			for i >= 0 && idx[i] >= idx[i+1] {
				i--
			}
			if i < 0 {
				break
			}
			j := n - 1
			for idx[j] <= idx[i] {
				j--
			}
			idx[i], idx[j] = idx[j], idx[i]
			for a, b := i+1, n-1; a < b; a, b = a+1, b-1 {
				idx[a], idx[b] = idx[b], idx[a]
			}
		}
		permCache[n] = out
	}
}

// listedSpelled is listed with the version of event k written as spelling sp[k] of its ladder
// position (0 = the ladder string itself).
func (c *canon) listedSpelled(e *ecoT, perm []int, sp []int) []rEvent {
	out := c.listed(perm)
	for i, k := range perm {
		if sp[k] == 0 {
			continue
		}
		s := e.spell[c.evs[k].pos][sp[k]]
		switch c.evs[k].kind {
		case 'i':
			out[i].Introduced = s
		case 'f':
			out[i].Fixed = s
		default:
			out[i].LastAffected = s
		}
	}
	return out
}

// listedZone lists a canonical list over the ecosystem's zero-zone ladder, version zero written
// as spelling sp[k] of e.zspell.
func (c *canon) listedZone(e *ecoT, perm []int, sp []int) []rEvent {
	return c.listedOn(e.zlad, e.zspell, perm, sp)
}

// listedOn lists a canonical list over an arbitrary ladder with optional spellings per position.
func (c *canon) listedOn(lad []string, spell map[int][]string, perm []int, sp []int) []rEvent {
	out := make([]rEvent, len(perm))
	for i, k := range perm {
		p := c.evs[k]
		out[i] = p.eventOn(lad)
		if sp[k] == 0 {
			continue
		}
		s := spell[p.pos][sp[k]]
		switch p.kind {
		case 'i':
			out[i].Introduced = s
		case 'f':
			out[i].Fixed = s
		default:
			out[i].LastAffected = s
		}
	}
	return out
}

func (c *canon) listed(perm []int) []rEvent {
	out := make([]rEvent, len(perm))
	for i, k := range perm {
		out[i] = c.evs[k].event()
	}
	return out
}

// nameKey is the name equivalence an ecosystem itself defines. PyPI: PEP 503 — lower-case, every
// run of '-', '_', '.' is one '-'. npm and Maven define none: names are case-sensitive and compared
// byte for byte ("JSONStream" and "jsonstream", "left-pad" and "left_pad", "com.example:Alpha" and
// "com.example:alpha" are different packages). Two names with different keys are different
// packages; two different names with the same key (PyPI only) are "equal only up to the
// ecosystem's normalisation" (don't-care).
func nameKey(eco, n string) string {
	if eco != "PyPI" {
		return n
	}
	var b strings.Builder
	sep := false
	for _, r := range strings.ToLower(n) {
		if r == '-' || r == '_' || r == '.' {
			sep = true
			continue
		}
		if sep {
			b.WriteByte('-')
			sep = false
		}
		b.WriteRune(r)
	}
	if sep {
		b.WriteByte('-')
	}
	return b.String()
}

// ---------------------------------------------------------------------------
// Executing one case and attributing a mismatch.

type stats struct {
	evals, affected, notAffected, skipped int64
	kTrouble                              int64                   // phase K cases that could not be evaluated (universe did not resolve)
	vuln                                  osvschema.Vulnerability // scratch record, reused for every case of a work item
	viols                                 []*vrec                 // mismatches of this work item, first example per cause key
}

// vrec collects the violations of one work item under one cause key. They are handed to
// ev.Violation after the parallel phase in work-item order, so that the example written to the
// replay file does not depend on goroutine scheduling or VERIF_SEED.
type vrec struct {
	key, what string
	c         *rCase
	n         int
}

func (st *stats) addViol(key, what string, c *rCase) {
	for _, v := range st.viols {
		if v.key == key {
			v.n++
			return
		}
	}
	st.viols = append(st.viols, &vrec{key, what, c, 1})
}

var (
	gAffected, gNotAffected, gSkipped atomic.Int64
	gPermLists                        atomic.Int64
	gSpelledLists                     atomic.Int64
	gZoneLists                        atomic.Int64
	gKTrouble                         atomic.Int64
	gPhaseEvals                       [14]atomic.Int64 // A, B, C1, C2, D, D0, E, F, G, H, I, J, K, K2
)

var phaseNames = []string{"A", "B", "C1", "C2", "D", "D0", "E", "F", "G", "H", "I", "J", "K", "K2"}

func safeCall(v *osvschema.Vulnerability, pkg *extractor.Package) (got bool, panicked any, stack string) {
	defer func() {
		if x := recover(); x != nil {
			panicked = x
			buf := make([]byte, 8192)
			stack = string(buf[:runtime.Stack(buf, false)])
		}
	}()
	got = guidedremediation.VerifIsAffected(v, pkg)
	return
}

func callImpl(c *rCase, pkg *extractor.Package) (got bool, panicked any, stack string) {
	return safeCall(c.toOSV(), pkg)
}

// fcase is a case in the form handed to the implementation; converted to an rCase only
// when it has to be written out (violation, sample).
type fcase struct {
	phase string
	aff   []osvschema.Affected
	qname string             // queried package name when it is not the ecosystem's default (phase H)
	qpkg  *extractor.Package // the package for (qname, probe)
}

func (c fcase) toRCase(e *ecoT, pi int) *rCase {
	out := &rCase{Phase: c.phase, Ecosystem: e.osv, Name: e.name, Version: e.allProbes[pi], Affected: []rAffected{}}
	if c.qname != "" {
		out.Name = c.qname
	}
	for _, a := range c.aff {
		ra := rAffected{Ecosystem: a.Package.Ecosystem, Name: a.Package.Name}
		if a.Versions != nil {
			ra.Versions = append([]string{}, a.Versions...)
		}
		for _, rg := range a.Ranges {
			ra.Ranges = append(ra.Ranges, rRange{Type: string(rg.Type), Events: append([]rEvent{}, rg.Events...)})
		}
		out.Affected = append(out.Affected, ra)
	}
	return out
}

func entry(eco, name string, versions []string, rs ...osvschema.Range) osvschema.Affected {
	return osvschema.Affected{Package: osvschema.Package{Ecosystem: eco, Name: name}, Versions: versions, Ranges: rs}
}

func rg(typ string, evs []rEvent) osvschema.Range {
	return osvschema.Range{Type: osvschema.RangeType(typ), Events: evs}
}

func pkgFor(eco *ecoT, name, version string) *extractor.Package {
	if name == eco.name {
		for i, p := range eco.allProbes {
			if p == version {
				return eco.pkgs[i]
			}
		}
	}
	return guidedremediation.VerifVKToPackage(resolve.VersionKey{
		PackageKey:  resolve.PackageKey{System: eco.sys, Name: name},
		VersionType: resolve.Concrete, Version: version})
}

// rangeClass names where v sits relative to the ordered events of one range.
func rangeClass(events []rEvent, v string) string {
	s := specSorted(events)
	last := -1
	for k, e := range s {
		if geq(v, evVersion(e)) {
			last = k
		}
	}
	if last < 0 {
		return "before-first-event"
	}
	kind := func(e rEvent) string {
		switch {
		case e.Introduced == "0":
			return "introduced-0"
		case e.Introduced != "":
			return "introduced"
		case e.Fixed != "":
			return "fixed"
		}
		return "last_affected"
	}
	e := s[last]
	name := kind(e)
	if last > 0 && evVersion(s[last-1]) == evVersion(e) {
		name = kind(s[last-1]) + "+" + name
	}
	if evVersion(e) != "0" && refCmp(v, evVersion(e)) == 0 {
		return "on-" + name
	}
	return "after-" + name
}

func causeKey(c *rCase, eco *ecoT, got, want bool) string {
	dir := "false-negative"
	if got {
		dir = "false-positive"
	}
	// (0) the package name: does the same record behave once the queried name (in the query and in
	// the entries carrying exactly that name) is replaced by a plain lower-case one?
	if c.Name != eco.name {
		c0 := *c
		c0.Name = eco.plain
		c0.Affected = nil
		for _, a := range c.Affected {
			if a.Ecosystem == c.Ecosystem && a.Name == c.Name {
				a.Name = eco.plain
			}
			c0.Affected = append(c0.Affected, a)
		}
		g0, p0, _ := callImpl(&c0, pkgFor(eco, c0.Name, c0.Version))
		if p0 == nil && g0 == specAffected(&c0) {
			return "package-name-comparison:" + dir
		}
	}
	// (1) decoys: does the record without the non-matching entries behave?
	var own []rAffected
	for _, a := range c.Affected {
		if a.Ecosystem == c.Ecosystem && a.Name == c.Name {
			own = append(own, a)
		}
	}
	if len(own) != len(c.Affected) {
		c2 := *c
		c2.Affected = own
		g2, p2, _ := callImpl(&c2, pkgFor(eco, c.Name, c.Version))
		if p2 == nil && g2 == specAffected(&c2) {
			return "entry-for-other-package-or-ecosystem-matched:" + dir
		}
	}
	// (2) explicit versions (before the ranges: a listed version needs no range)
	for _, a := range own {
		if len(a.Versions) == 0 {
			continue
		}
		c1 := rCase{Phase: "attr", Ecosystem: c.Ecosystem, Name: c.Name, Version: c.Version,
			Affected: []rAffected{{Ecosystem: a.Ecosystem, Name: a.Name, Versions: a.Versions}}}
		g1, p1, _ := callImpl(&c1, pkgFor(eco, c.Name, c.Version))
		if p1 == nil && g1 != specAffected(&c1) {
			return "explicit-versions-list:" + dir
		}
	}
	// (3) a single range of the queried package that is itself misjudged
	for _, a := range own {
		if !known(c.Version) {
			break // phase G: no range is ever evaluated for such a version
		}
		for _, rg := range a.Ranges {
			c1 := rCase{Phase: "attr", Ecosystem: c.Ecosystem, Name: c.Name, Version: c.Version,
				Affected: []rAffected{{Ecosystem: a.Ecosystem, Name: a.Name, Ranges: []rRange{rg}}}}
			g1, p1, _ := callImpl(&c1, pkgFor(eco, c.Name, c.Version))
			w1 := specAffected(&c1)
			if p1 != nil || g1 == w1 {
				continue
			}
			d1 := "false-negative"
			if g1 {
				d1 = "false-positive"
			}
			if !typeMatches(a.Ecosystem, rg.Type) {
				return "range-of-non-matching-type-evaluated:" + rg.Type
			}
			if g1 == variantListedTieOrder(&c1, true) {
				return "tie-equal-versions-different-spelling:listed-order-decides:" + d1
			}
			if g1 == variantListedTieOrder(&c1, false) {
				return "tie-introduced-eq-last_affected:listed-order-decides:" + d1
			}
			return "range:" + rangeClass(rg.Events, c.Version) + ":" + d1
		}
	}
	return "combination:" + c.Phase + ":" + dir
}

type runner struct {
	r *ev.Run
}

// check executes one case; returns the oracle verdict.
func (x *runner) check(fc fcase, eco *ecoT, pi int, st *stats) bool {
	qname, qpkg := eco.name, eco.pkgs[pi]
	if fc.qname != "" {
		qname, qpkg = fc.qname, fc.qpkg
	}
	want := specAffectedOSV(eco.osv, qname, eco.allProbes[pi], fc.aff)
	st.vuln.ID = "VERIF-C18"
	st.vuln.Affected = fc.aff
	got, pv, stack := safeCall(&st.vuln, qpkg)
	st.evals++
	if want {
		st.affected++
	} else {
		st.notAffected++
	}
	if pv != nil {
		c := fc.toRCase(eco, pi)
		st.addViol("panic:"+ev.PanicSite(stack), fmt.Sprintf("IsAffected panicked (%v) on %s", pv, brief(c)), c)
		return want
	}
	if got != want {
		c := fc.toRCase(eco, pi)
		key := causeKey(c, eco, got, want)
		st.addViol(key, fmt.Sprintf("IsAffected=%v, OSV evaluation=%v for %s", got, want, brief(c)), c)
	}
	return want
}

func brief(c *rCase) string {
	b, _ := json.Marshal(c.Affected)
	return fmt.Sprintf("%s %s@%s affected=%s", c.Ecosystem, c.Name, c.Version, b)
}

func (st *stats) flush(r *ev.Run, distinct int64) {
	r.Evals.Add(st.evals)
	r.Nontrivial.Add(distinct)
	gAffected.Add(st.affected)
	gNotAffected.Add(st.notAffected)
	gSkipped.Add(st.skipped)
	gKTrouble.Add(st.kTrouble)
}

// ---------------------------------------------------------------------------

type workItem struct {
	phase string
	eco   *ecoT
	c     *canon
	qn    int // phase H: index of the queried name in eco.names
}

func otherEcos(e *ecoT) []*ecoT {
	var out []*ecoT
	for _, o := range ecos {
		if o != e {
			out = append(out, o)
		}
	}
	return out
}

func main() {
	initPerms()
	initSpace()
	if f := os.Getenv("VERIF_REPLAY"); f != "" {
		os.Exit(replay(f))
	}
	r := ev.Start("C18", "exploration", 4*time.Minute, 30*time.Minute)
	x := &runner{r: r}

	maxLen := ev.Pick(r, 4, 5)  // phase A: event list length
	lenB1 := ev.Pick(r, 2, 4)   // phase B: first range length (second: <= 2)
	lenC1 := ev.Pick(r, 3, 4)   // phase C1: matching entry's range length
	lenC2 := ev.Pick(r, 2, 3)   // phase C2: first entry's range length (second: <= 2)
	lenD := ev.Pick(r, 2, 3)    // phase D: range length next to a versions list
	const lenSecond = 2         // second range / second entry range length
	const maxVersionsSubset = 2 // phase D: size of the explicit versions list

	canons := genCanon(maxLen)
	byLen := map[int]int{}
	for _, c := range canons {
		byLen[len(c.evs)]++
	}
	upTo := func(l int) []*canon {
		var out []*canon
		for _, c := range canons {
			if len(c.evs) <= l {
				out = append(out, c)
			}
		}
		return out
	}
	// permuted short lists used as the "second" range
	type permuted struct {
		c    *canon
		evs  []rEvent
		pidx int
	}
	var seconds []permuted
	for _, c := range upTo(lenSecond) {
		for pi, p := range perms(len(c.evs)) {
			seconds = append(seconds, permuted{c, c.listed(p), pi})
		}
	}

	// oracle self-check: scan == interval wording on every canonical list x every probe string
	for _, c := range canons {
		evs := c.listed(perms(len(c.evs))[0])
		for _, p := range append(append(append(append([]string{}, ladder...), gapProbes...), aliasProbes...), ecos[0].preZero, ecos[1].preZero, ecos[2].preZero) {
			if specScan(evs, p) != declAffected(evs, p) {
				fmt.Fprintf(os.Stderr, "C18 harness error: the two reference formulations disagree on %s @ %s\n", c.str, p)
				os.Exit(3)
			}
			// and the scan does not depend on the listing order
			for _, pm := range perms(len(c.evs)) {
				if specScan(c.listed(pm), p) != specScan(evs, p) {
					fmt.Fprintf(os.Stderr, "C18 harness error: reference scan depends on listing order: %s @ %s\n", c.str, p)
					os.Exit(3)
				}
			}
		}
	}

	// work items, simplest first
	var items []workItem
	for _, ph := range []struct {
		name string
		l    int
	}{{"A", maxLen}, {"E", maxLen}, {"D", lenD}, {"C1", lenC1}, {"C2", lenC2}, {"B", lenB1}} {
		for _, c := range upTo(ph.l) {
			for _, e := range ecos {
				items = append(items, workItem{ph.name, e, c, 0})
			}
		}
	}
	// phase D0 / C0: entries without any range (one item per ecosystem)
	for _, e := range ecos {
		items = append(items, workItem{"D0", e, nil, 0})
		items = append(items, workItem{"G", e, nil, 0})
		items = append(items, workItem{"J", e, nil, 0})
		if e.osv != "PyPI" { // the universe kit writes package.json and pom.xml manifests
			for vi := range kVersions {
				items = append(items, workItem{"K", e, nil, vi})
			}
		}
		if e.osv == "npm" { // two versions side by side: every ordered pair of ladder versions
			for ai := range ladder {
				for bi := range ladder {
					if ai != bi {
						items = append(items, workItem{"K2", e, nil, ai*len(ladder) + bi})
					}
				}
			}
		}
		for qn := range e.names {
			items = append(items, workItem{"H", e, nil, qn})
		}
	}
	// phase F: the zero zone
	zcanons := genCanonN(5, maxLen)
	for _, e := range ecos {
		for _, c := range genCanonN(len(e.slad), maxLen) {
			items = append(items, workItem{"I", e, c, 0})
			evs := c.listedOn(e.slad, nil, perms(len(c.evs))[0], make([]int, len(c.evs)))
			for _, q := range e.sq {
				if specScan(evs, q) != declAffected(evs, q) {
					fmt.Fprintf(os.Stderr, "C18 harness error: the two reference formulations disagree on signature list %s @ %s (%s)\n", c.str, q, e.osv)
					os.Exit(3)
				}
			}
		}
	}
	for _, c := range zcanons {
		for _, e := range ecos {
			items = append(items, workItem{"F", e, c, 0})
			// oracle self-check on the zero zone as well
			evs := c.listedZone(e, perms(len(c.evs))[0], make([]int, len(c.evs)))
			for _, q := range e.zq {
				if specScan(evs, q) != declAffected(evs, q) {
					fmt.Fprintf(os.Stderr, "C18 harness error: the two reference formulations disagree on zone list %s @ %s (%s)\n", c.str, q, e.osv)
					os.Exit(3)
				}
			}
		}
	}
	order := make([]int, len(items))
	for i := range order {
		order[i] = i
	}
	if r.Seed != 0 { // VERIF_SEED only permutes the work order
		s := uint64(r.Seed)*0x9E3779B97F4A7C15 + 1
		for i := len(order) - 1; i > 0; i-- {
			s = s*6364136223846793005 + 1442695040888963407
			j := int((s >> 33) % uint64(i+1))
			order[i], order[j] = order[j], order[i]
		}
	}

	var sampled atomic.Int64
	sample := func(c *rCase, want bool) {
		if sampled.Add(1) <= 6 {
			r.Sample(map[string]any{"case": c, "osv_evaluation_affected": want, "implementation_agrees": true})
		}
	}

	// subsets of the probe set of size <= maxVersionsSubset (indices)
	subsets := func(n int) [][]int {
		out := [][]int{{}}
		for i := 0; i < n; i++ {
			out = append(out, []int{i})
		}
		if maxVersionsSubset >= 2 {
			for i := 0; i < n; i++ {
				for j := i + 1; j < n; j++ {
					out = append(out, []int{i, j})
				}
			}
		}
		return out
	}

	var distinctLists, distinctA atomic.Int64

	// Event slices are shared between many cases; the implementation must treat the record as
	// read-only. guard re-derives the listing and reports if it was modified in place.
	guard := func(e *ecoT, c *canon, pm []int, l1 []rEvent) {
		want := c.listed(pm)
		for i := range want {
			if want[i] != l1[i] {
				r.Violation("record-modified-in-place", fmt.Sprintf("IsAffected reordered/modified the events of the record it was given (%s list %s)", e.osv, c.str), c.str)
				return
			}
		}
	}

	kdir := kWorkDir()
	itemViols := make([][]*vrec, len(items))
	done := r.ParallelFor(len(items), func(k int) {
		it := items[order[k]]
		e := it.eco
		var st stats
		var distinct int64
		mk := func(phase string, _ int, aff ...osvschema.Affected) fcase { return fcase{phase: phase, aff: aff} }
		own := func(versions []string, rs ...osvschema.Range) osvschema.Affected {
			return entry(e.osv, e.name, versions, rs...)
		}
		switch it.phase {
		case "A":
			if e == ecos[0] {
				distinctLists.Add(1)
			}
			ps := perms(len(it.c.evs))
			gPermLists.Add(int64(len(ps)))
			for _, typ := range e.types {
				for pi := range e.probes {
					distinct++
					distinctA.Add(1)
					for pn, pm := range ps {
						c := mk("A", pi, own(nil, rg(typ, it.c.listed(pm))))
						w := x.check(c, e, pi, &st)
						if pn == len(ps)-1 && len(it.c.evs) == 4 && typ == "ECOSYSTEM" && (it.c.id+pi)%97 == 0 {
							sample(c.toRCase(e, pi), w)
						}
					}
				}
			}
		case "B":
			for pn, pm := range perms(len(it.c.evs)) {
				l1 := it.c.listed(pm)
				defer guard(e, it.c, pm, l1)
				first := int64(0) // 1 while enumerating the canonical listing: distinct cells are counted there only
				if pn == 0 {
					first = 1
				}
				for _, s2 := range seconds {
					for _, t1 := range e.types {
						for _, t2 := range e.types {
							if len(it.c.evs) > 3 && (t1 == "GIT" || t2 == "GIT") {
								continue // GIT pairings are enumerated for first ranges of up to 3 events only
							}
							for pi := range e.probes {
								c := mk("B", pi, own(nil, rg(t1, l1), rg(t2, s2.evs)))
								x.check(c, e, pi, &st)
								if s2.pidx == 0 {
									distinct += first
								}
								if len(it.c.evs) > lenSecond { // the swapped order is not itself in the product
									c = mk("B", pi, own(nil, rg(t2, s2.evs), rg(t1, l1)))
									x.check(c, e, pi, &st)
								}
							}
						}
					}
				}
			}
		case "C1":
			type decoy struct{ eco, name string }
			decoys := []decoy{{e.osv, e.other}}
			for _, o := range otherEcos(e) {
				decoys = append(decoys, decoy{o.osv, e.name}, decoy{o.osv, o.name})
			}
			matchTypes := []string{"ECOSYSTEM"}
			if e.osv == "npm" {
				matchTypes = append(matchTypes, "SEMVER")
			}
			all := rg("ECOSYSTEM", []rEvent{{Introduced: "0"}})
			for pn, pm := range perms(len(it.c.evs)) {
				l1 := it.c.listed(pm)
				defer guard(e, it.c, pm, l1)
				first := int64(0) // 1 while enumerating the canonical listing: distinct cells are counted there only
				if pn == 0 {
					first = 1
				}
				for _, typ := range matchTypes {
					for pi, pv := range e.probes {
						for _, d := range decoys {
							for content := 0; content < 3; content++ {
								da := entry(d.eco, d.name, nil)
								if content != 1 {
									da.Ranges = []osvschema.Range{all}
								}
								if content != 0 {
									da.Versions = []string{pv}
								}
								x.check(mk("C1", pi, own(nil, rg(typ, l1)), da), e, pi, &st)
								x.check(mk("C1", pi, da, own(nil, rg(typ, l1))), e, pi, &st)
								distinct += 2 * first
							}
						}
					}
				}
			}
		case "C2":
			for pn, pm := range perms(len(it.c.evs)) {
				l1 := it.c.listed(pm)
				defer guard(e, it.c, pm, l1)
				first := int64(0) // 1 while enumerating the canonical listing: distinct cells are counted there only
				if pn == 0 {
					first = 1
				}
				for _, s2 := range seconds {
					for _, tp := range [][2]string{{"ECOSYSTEM", "ECOSYSTEM"}, {"ECOSYSTEM", "GIT"}, {"GIT", "ECOSYSTEM"}} {
						for pi := range e.probes {
							x.check(mk("C2", pi, own(nil, rg(tp[0], l1)), own(nil, rg(tp[1], s2.evs))), e, pi, &st)
							if s2.pidx == 0 {
								distinct += first
							}
						}
					}
				}
				// second entry carries only an explicit versions list
				for pi := range e.probes {
					for _, lv := range e.probes {
						if lv != e.probes[pi] && refCmp(lv, e.probes[pi]) == 0 {
							st.skipped++ // don't-care: version-equal, not string-equal
							continue
						}
						x.check(mk("C2", pi, own(nil, rg("ECOSYSTEM", l1)), own([]string{lv})), e, pi, &st)
						x.check(mk("C2", pi, own([]string{lv}), own(nil, rg("GIT", l1))), e, pi, &st)
						distinct += 2 * first
					}
				}
			}
		case "D":
			subs := subsets(len(e.probes))
			for pn, pm := range perms(len(it.c.evs)) {
				l1 := it.c.listed(pm)
				defer guard(e, it.c, pm, l1)
				first := int64(0) // 1 while enumerating the canonical listing: distinct cells are counted there only
				if pn == 0 {
					first = 1
				}
				for _, typ := range []string{"ECOSYSTEM", "GIT"} {
					for _, sub := range subs {
						vs := []string{}
						for _, i := range sub {
							vs = append(vs, e.probes[i])
						}
						for pi, pv := range e.probes {
							dc := false
							for _, lv := range vs {
								if lv != pv && refCmp(lv, pv) == 0 {
									dc = true
								}
							}
							c := mk("D", pi, own(vs, rg(typ, l1)))
							if dc && !(typ == "ECOSYSTEM" && specScan(l1, pv)) {
								st.skipped++ // don't-care: listed by an equivalent spelling only
								continue
							}
							x.check(c, e, pi, &st)
							distinct += first
						}
					}
				}
			}
		case "E":
			// alternative spellings of the event versions, chosen independently per event
			var at []int // indices of the events that sit on a ladder position with spellings
			for k, pv := range it.c.evs {
				if len(e.spell[pv.pos]) > 1 {
					at = append(at, k)
				}
			}
			if len(at) == 0 {
				break
			}
			matchTypes := []string{"ECOSYSTEM"}
			if e.osv == "npm" {
				matchTypes = append(matchTypes, "SEMVER")
			}
			sp := make([]int, len(it.c.evs))
			for {
				// next assignment (odometer over the spelling indices); all-zero is phase A
				i := 0
				for ; i < len(at); i++ {
					k := at[i]
					sp[k]++
					if sp[k] < len(e.spell[it.c.evs[k].pos]) {
						break
					}
					sp[k] = 0
				}
				if i == len(at) {
					break
				}
				if e == ecos[0] {
					gSpelledLists.Add(1)
				}
				for pn, pm := range perms(len(it.c.evs)) {
					l1 := it.c.listedSpelled(e, pm, sp)
					for _, typ := range matchTypes {
						for pi := range e.probes {
							c := mk("E", pi, own(nil, rg(typ, l1)))
							w := x.check(c, e, pi, &st)
							if pn == 0 {
								distinct++
							}
							if pn == 1 && pi == 8 && typ == "ECOSYSTEM" && len(it.c.evs) == 2 && it.c.evs[0].pos == 1 && it.c.evs[1].pos == 1 {
								sample(c.toRCase(e, pi), w)
							}
						}
					}
				}
			}
		case "F", "I":
			// F, zero zone: ranges over b1 < b2 < zero < 1.0.0 < 2.0.0 with version zero spelled in every
			// way (never "0") in events, queried with every spelling of zero including "0".
			// I, signature zone: ranges over versions whose order only this ecosystem defines that way.
			lad, spell, qIdx := e.zlad, e.zspell, e.zqIdx
			if it.phase == "I" {
				lad, spell, qIdx = e.slad, nil, e.sqIdx
			}
			var at []int
			for k, pv := range it.c.evs {
				if len(spell[pv.pos]) > 1 {
					at = append(at, k)
				}
			}
			matchTypes := []string{"ECOSYSTEM"}
			if e.osv == "npm" {
				matchTypes = append(matchTypes, "SEMVER")
			}
			sp := make([]int, len(it.c.evs))
			for {
				if e == ecos[0] && it.phase == "F" {
					gZoneLists.Add(1)
				}
				for pn, pm := range perms(len(it.c.evs)) {
					l1 := it.c.listedOn(lad, spell, pm, sp)
					for _, typ := range matchTypes {
						for _, pi := range qIdx {
							c := mk(it.phase, pi, own(nil, rg(typ, l1)))
							w := x.check(c, e, pi, &st)
							if pn == 0 {
								distinct++
							}
							if pn == len(perms(len(it.c.evs)))-1 && e.allProbes[pi] == lad[2] && typ == "ECOSYSTEM" && it.c.str == "i1f4" {
								sample(c.toRCase(e, pi), w)
							}
						}
					}
				}
				i := 0
				for ; i < len(at); i++ {
					k := at[i]
					sp[k]++
					if sp[k] < len(spell[it.c.evs[k].pos]) {
						break
					}
					sp[k] = 0
				}
				if i == len(at) {
					break
				}
			}
		case "K":
			env, err := newKEnv(e, kVersions[it.qn], filepath.Join(kdir, fmt.Sprintf("%s-%d", e.osv, it.qn)))
			if err != nil {
				fmt.Fprintln(os.Stderr, "C18 harness error: phase K setup:", err)
				os.Exit(3)
			}
			var lists [][]rEvent
			for _, s2 := range seconds {
				if s2.pidx == 0 || r.Thorough() {
					lists = append(lists, s2.evs)
				}
			}
			distinct += runPhaseK(env, lists, &st)
		case "K2":
			va, vb := ladder[it.qn/len(ladder)], ladder[it.qn%len(ladder)]
			env, err := newKEnv2(e, va, vb, filepath.Join(kdir, fmt.Sprintf("k2-%d", it.qn)))
			if err != nil {
				fmt.Fprintln(os.Stderr, "C18 harness error: phase K2 setup:", err)
				os.Exit(3)
			}
			distinct += runPhaseK2(env, &st)
		case "J":
			// record ecosystems: the exact string counts; every other string never does — another
			// known ecosystem, the exact string plus a ":suffix" (release / repository of ANOTHER
			// package universe), another letter case (OSV ecosystem names are case-sensitive),
			// padded, empty, unknown. Only "Maven:<Maven Central URL>" is a don't-care: the OSV
			// schema says an omitted suffix means Maven Central, so it arguably denotes plain Maven.
			all := rg("ECOSYSTEM", []rEvent{{Introduced: "0"}})
			var recEcos []string
			for _, o := range ecos {
				x := o.osv
				recEcos = append(recEcos, x, x+":", x+":x", x+":https://repo.example.org/releases", x+":12", x+": ", " "+x, x+" ",
					strings.ToLower(x), strings.ToUpper(x), strings.ToUpper(x[:1])+strings.ToLower(x[1:]), x+"x", x[:len(x)-1])
			}
			recEcos = append(recEcos, "", ":", "unknown", "crates.io", "Go", "Debian:12", "maven:https://repo.example.org", "Maven:https://maven.google.com")
			seenEco := map[string]bool{}
			for _, re := range recEcos {
				if seenEco[re] || re == "Maven:https://repo.maven.apache.org/maven2" {
					continue
				}
				seenEco[re] = true
				for pi, pv := range e.probes {
					one := func(aff ...osvschema.Affected) {
						x.check(mk("J", pi, aff...), e, pi, &st)
						distinct++
					}
					one(entry(re, e.name, []string{pv}, all))
					one(entry(re, e.name, []string{pv}))
					for _, s2 := range seconds {
						if s2.pidx != 0 {
							continue
						}
						one(entry(re, e.name, nil, rg("ECOSYSTEM", s2.evs)))
						if re != e.osv {
							one(entry(re, e.name, []string{pv}, all), own(nil, rg("ECOSYSTEM", s2.evs)))
							one(own(nil, rg("ECOSYSTEM", s2.evs)), entry(re, e.name, []string{pv}, all))
						}
					}
				}
			}
		case "H":
			// package names: the queried package is named q; record entries are named r, for every
			// r of the alphabet. r == q byte-for-byte: the entry counts. nameKey(r) != nameKey(q)
			// (npm, Maven: any byte-wise difference): the entry never counts. Otherwise (PyPI names
			// equal only up to PEP 503): don't-care.
			q := e.names[it.qn]
			pkgs := make([]*extractor.Package, len(e.probes))
			for pi, pv := range e.probes {
				pkgs[pi] = guidedremediation.VerifVKToPackage(resolve.VersionKey{
					PackageKey:  resolve.PackageKey{System: e.sys, Name: q},
					VersionType: resolve.Concrete, Version: pv})
			}
			all := rg("ECOSYSTEM", []rEvent{{Introduced: "0"}})
			hc := func(pi int, aff ...osvschema.Affected) bool {
				fc := fcase{phase: "H", aff: aff, qname: q, qpkg: pkgs[pi]}
				w := x.check(fc, e, pi, &st)
				distinct++
				if it.qn == 5 && pi == 2 && len(aff) == 1 && len(aff[0].Ranges) == 1 && len(aff[0].Ranges[0].Events) == 2 && aff[0].Package.Name == q {
					sample(fc.toRCase(e, pi), w)
				}
				return w
			}
			for _, rn := range e.names {
				if rn != q && nameKey(e.osv, rn) == nameKey(e.osv, q) {
					st.skipped += int64(len(e.probes))
					continue // equal only up to normalisation
				}
				for pi, pv := range e.probes {
					// an entry that, were it for the queried package, would make every version affected
					hc(pi, entry(e.osv, rn, []string{pv}, all))
					hc(pi, entry(e.osv, rn, []string{pv}))
					for _, s2 := range seconds {
						if s2.pidx != 0 {
							continue // canonical listing; listing order is phases A-F's subject
						}
						hc(pi, entry(e.osv, rn, nil, rg("ECOSYSTEM", s2.evs)))
						if rn != q {
							// an entry for the queried name decides, the other-name entry adds nothing
							hc(pi, entry(e.osv, rn, []string{pv}, all), entry(e.osv, q, nil, rg("ECOSYSTEM", s2.evs)))
							hc(pi, entry(e.osv, q, nil, rg("ECOSYSTEM", s2.evs)), entry(e.osv, rn, []string{pv}, all))
						}
					}
					// same name, other ecosystem: never counts
					for _, o := range otherEcos(e) {
						hc(pi, entry(o.osv, rn, []string{pv}, all))
					}
				}
			}
		case "G":
			// versions the ecosystem's grammar may reject, decided by string equality only: listed
			// explicitly => affected, whatever ranges stand next to the list; not listed and no
			// range in any entry for the package => not affected. (Not listed + ranges: don't-care.)
			decoys := [][2]string{{e.osv, e.other}}
			for _, o := range otherEcos(e) {
				decoys = append(decoys, [2]string{o.osv, e.name}, [2]string{o.osv, o.name})
			}
			all := rg("ECOSYSTEM", []rEvent{{Introduced: "0"}})
			for wi, pi := range e.weirdIdx {
				u := e.allProbes[pi]
				var others []string
				for _, cmpn := range companions {
					if cmpn != u {
						others = append(others, cmpn)
					}
				}
				u2, u3 := others[0], others[1]
				one := func(aff ...osvschema.Affected) {
					w := x.check(mk("G", pi, aff...), e, pi, &st)
					distinct++
					if wi == 0 && len(aff) == 1 && len(aff[0].Ranges) == 1 && len(aff[0].Ranges[0].Events) == 2 && aff[0].Ranges[0].Type == "ECOSYSTEM" {
						sample(fcase{phase: "G", aff: aff}.toRCase(e, pi), w)
					}
				}
				// listed
				one(own([]string{u}))
				one(own([]string{u2, u, "1.0.0"}))
				one(own([]string{"1.0.0", "2.0.0", u}))
				one(own([]string{u2}), own([]string{u}))
				one(own([]string{u}), own([]string{u2}))
				one(own(nil), own([]string{u}))
				for _, d := range decoys {
					one(own([]string{u}), entry(d[0], d[1], nil, all))
					one(entry(d[0], d[1], nil, all), own([]string{u}))
				}
				for _, s2 := range seconds {
					for _, typ := range e.types {
						one(own([]string{u}, rg(typ, s2.evs)))
						one(own([]string{u2, u}, rg(typ, s2.evs), rg("GIT", s2.evs)))
					}
				}
				// not listed, no range in any entry for the package
				one(own([]string{u2}))
				one(own([]string{u2, u3, "3.1.4"}))
				one(own(nil), own([]string{u3}))
				for _, d := range decoys {
					one(entry(d[0], d[1], []string{u}, all))
					one(own([]string{u2}), entry(d[0], d[1], []string{u}, all))
					one(entry(d[0], d[1], []string{u}), own(nil))
				}
			}
		case "D0":
			// no ranges at all: versions list alone; also an entry with neither; also decoy-only records
			subs := subsets(len(e.probes))
			for _, sub := range subs {
				vs := []string{}
				for _, i := range sub {
					vs = append(vs, e.probes[i])
				}
				for pi, pv := range e.probes {
					dc := false
					for _, lv := range vs {
						if lv != pv && refCmp(lv, pv) == 0 {
							dc = true
						}
					}
					if dc {
						st.skipped++
						continue
					}
					var c fcase
					if len(vs) == 0 {
						c = mk("D0", pi, own(nil))
					} else {
						c = mk("D0", pi, own(vs))
					}
					w := x.check(c, e, pi, &st)
					distinct++
					if len(vs) == 2 && w && pi == 3 {
						sample(c.toRCase(e, pi), w)
					}
				}
			}
			all := rg("ECOSYSTEM", []rEvent{{Introduced: "0"}})
			for pi, pv := range e.probes {
				x.check(mk("D0", pi), e, pi, &st) // no affected entries at all
				distinct++
				for _, o := range otherEcos(e) {
					for _, nm := range []string{e.name, o.name} {
						x.check(mk("D0", pi, entry(o.osv, nm, []string{pv}, all)), e, pi, &st)
						distinct++
					}
				}
				x.check(mk("D0", pi, entry(e.osv, e.other, []string{pv}, all)), e, pi, &st)
				distinct++
			}
		}
		st.flush(r, distinct)
		for i, n := range phaseNames {
			if n == it.phase {
				gPhaseEvals[i].Add(st.evals)
			}
		}
		itemViols[order[k]] = st.viols
	})
	os.RemoveAll(kdir)
	for _, vs := range itemViols { // canonical work-item order
		for _, v := range vs {
			for i := 0; i < v.n; i++ {
				r.Violation(v.key, v.what, v.c)
			}
		}
	}

	r.Set("ladder", ladder)
	r.Set("probes_per_ecosystem", map[string]int{"npm": len(ecos[0].probes), "Maven": len(ecos[1].probes), "PyPI": len(ecos[2].probes)})
	r.Set("bounds", map[string]int{"phaseA_max_events": maxLen, "phaseB_first_range_max_events": lenB1, "phaseC1_max_events": lenC1,
		"phaseC2_first_entry_max_events": lenC2, "phaseD_max_events": lenD, "second_range_max_events": lenSecond, "versions_list_max": maxVersionsSubset})
	r.Set("canonical_event_lists_by_length", byLen)
	r.Set("distinct_event_lists", distinctLists.Load())
	r.Set("permuted_event_lists", gPermLists.Load()/3)
	r.Set("distinct_single_range_cells", distinctA.Load())
	r.Set("respelled_event_lists", gSpelledLists.Load())
	r.Set("zero_zone_event_lists", gZoneLists.Load())
	r.Set("zero_zone", map[string]any{"npm": map[string]any{"ladder": ecos[0].zlad, "zero_spellings_in_events": ecos[0].zspell[3], "queried": ecos[0].zq},
		"Maven": map[string]any{"ladder": ecos[1].zlad, "zero_spellings_in_events": ecos[1].zspell[3], "queried": ecos[1].zq},
		"PyPI":  map[string]any{"ladder": ecos[2].zlad, "zero_spellings_in_events": ecos[2].zspell[3], "queried": ecos[2].zq}})
	r.Set("unparsable_version_strings", weird)
	r.Set("signature_ladders", map[string][]string{"npm": ecos[0].slad, "Maven": ecos[1].slad, "PyPI": ecos[2].slad})
	r.Set("package_names", map[string][]string{"npm": ecos[0].names, "Maven": ecos[1].names, "PyPI": ecos[2].names})
	r.Set("event_spellings", map[string]map[int][]string{"npm": ecos[0].spell, "Maven": ecos[1].spell, "PyPI": ecos[2].spell})
	byPhase := map[string]int64{}
	for i, n := range phaseNames {
		byPhase[n] = gPhaseEvals[i].Load()
	}
	r.Set("evaluations_by_phase", byPhase)
	r.Set("verdict_affected", gAffected.Load())
	r.Set("verdict_not_affected", gNotAffected.Load())
	r.Set("dont_care_skipped", gSkipped.Load())
	r.Set("phaseK_unevaluable_cases", gKTrouble.Load())
	r.Set("work_items", map[string]int{"total": len(items), "completed": done})
	r.Assume("ladder and probe versions are plain dotted integers whose order is the same under semver, Maven and PEP 440; the reference comparison is a 3-integer compare")
	r.Assume("records are handed to IsAffected as osvschema structs (no JSON decoding step in between)")
	r.Finish("IsAffected(record, package@v) == OSV specification evaluation (listed explicitly, or inside an introduced..fixed/last_affected interval of a range of matching type of an affected entry for exactly this ecosystem+name), for every well-formed event list in every listing order", done == len(items))
}

// ---------------------------------------------------------------------------

func replay(file string) int {
	b, err := os.ReadFile(file)
	if err != nil {
		fmt.Fprintln(os.Stderr, err)
		return 3
	}
	var doc struct {
		Key    string `json:"key"`
		What   string `json:"what"`
		Replay rCase  `json:"replay"`
	}
	if err := json.Unmarshal(b, &doc); err != nil {
		fmt.Fprintln(os.Stderr, err)
		return 3
	}
	c := &doc.Replay
	var eco *ecoT
	for _, e := range ecos {
		if e.osv == c.Ecosystem {
			eco = e
		}
	}
	if eco == nil {
		fmt.Fprintf(os.Stderr, "replay: unknown ecosystem %q\n", c.Ecosystem)
		return 3
	}
	if c.Phase == "K" || c.Phase == "K2" {
		return replayK(c, eco)
	}
	// every version in the record must be one the reference comparison understands
	if !known(c.Version) && !decidableWithoutOrder(c) {
		fmt.Fprintf(os.Stderr, "replay: version %q outside the reference comparison's domain\n", c.Version)
		return 3
	}
	for _, a := range c.Affected {
		for _, rg := range a.Ranges {
			for _, e := range rg.Events {
				if v := evVersion(e); v != "0" {
					if _, ok := verCache[v]; !ok && !parses(v) {
						fmt.Fprintf(os.Stderr, "replay: event version %q outside the reference comparison's domain\n", v)
						return 3
					}
				}
			}
		}
	}
	pkg := guidedremediation.VerifVKToPackage(resolve.VersionKey{
		PackageKey:  resolve.PackageKey{System: eco.sys, Name: c.Name},
		VersionType: resolve.Concrete, Version: c.Version})
	want := specAffected(c)
	got, pv, stack := callImpl(c, pkg)
	fmt.Printf("replay C18 key=%s\n  case: %s\n  OSV evaluation: affected=%v\n", doc.Key, brief(c), want)
	if pv != nil {
		fmt.Printf("  implementation: PANIC %v at %s\n", pv, ev.PanicSite(stack))
		fmt.Println("VIOLATION reproduced")
		return 1
	}
	fmt.Printf("  implementation: affected=%v\n", got)
	if got != want {
		fmt.Println("VIOLATION reproduced")
		return 1
	}
	fmt.Println("no violation: implementation agrees with the OSV evaluation")
	return 0
}
