package main

import (
	"fmt"
	"reflect"
	"sort"
	"strings"

	"github.com/CycloneDX/cyclonedx-go"
	sproto "github.com/google/osv-scalibr/binary/proto"
	"github.com/google/osv-scalibr/converter"
	"github.com/google/osv-scalibr/extractor"
	"github.com/google/osv-scalibr/packageindex"
	"github.com/google/osv-scalibr/purl"
	"google.golang.org/protobuf/proto"
	"verif/ev"
)

// deepCopy clones v: pointers, slices, maps, interfaces and structs are copied recursively.
// Unexported struct fields are copied shallowly (reflection cannot set them); none of the
// metadata types of the built-in extractors keeps a pointer there.
func deepCopy(v reflect.Value) reflect.Value {
	switch v.Kind() {
	case reflect.Pointer:
		if v.IsNil() {
			return v
		}
		n := reflect.New(v.Type().Elem())
		n.Elem().Set(deepCopy(v.Elem()))
		return n
	case reflect.Interface:
		if v.IsNil() {
			return v
		}
		n := reflect.New(v.Type()).Elem()
		n.Set(deepCopy(v.Elem()))
		return n
	case reflect.Struct:
		n := reflect.New(v.Type()).Elem()
		n.Set(v)
		for i := 0; i < v.NumField(); i++ {
			if n.Field(i).CanSet() {
				n.Field(i).Set(deepCopy(v.Field(i)))
			}
		}
		return n
	case reflect.Slice:
		if v.IsNil() {
			return v
		}
		n := reflect.MakeSlice(v.Type(), v.Len(), v.Len())
		for i := 0; i < v.Len(); i++ {
			n.Index(i).Set(deepCopy(v.Index(i)))
		}
		return n
	case reflect.Map:
		if v.IsNil() {
			return v
		}
		n := reflect.MakeMapWithSize(v.Type(), v.Len())
		it := v.MapRange()
		for it.Next() {
			n.SetMapIndex(deepCopy(it.Key()), deepCopy(it.Value()))
		}
		return n
	}
	return v
}

// clonePkg deep-copies everything of the package except the extractor (shared on purpose).
func clonePkg(p *extractor.Package) *extractor.Package {
	c := *p
	c.Locations = append([]string(nil), p.Locations...)
	c.Annotations = append([]extractor.Annotation(nil), p.Annotations...)
	if p.SourceCode != nil {
		sc := *p.SourceCode
		c.SourceCode = &sc
	}
	if p.LayerDetails != nil {
		ld := *p.LayerDetails
		c.LayerDetails = &ld
	}
	if p.Metadata != nil {
		c.Metadata = deepCopy(reflect.ValueOf(p.Metadata)).Interface()
	}
	return &c
}

// fingerprint renders a value completely (following pointers, including unexported fields).
func fingerprint(b *strings.Builder, v reflect.Value, depth int) {
	if depth > 12 {
		b.WriteString("<deep>")
		return
	}
	switch v.Kind() {
	case reflect.Invalid:
		b.WriteString("<invalid>")
	case reflect.Pointer, reflect.Interface:
		if v.IsNil() {
			b.WriteString("nil")
			return
		}
		b.WriteString("&")
		fingerprint(b, v.Elem(), depth+1)
	case reflect.Struct:
		b.WriteString(v.Type().String() + "{")
		for i := 0; i < v.NumField(); i++ {
			b.WriteString(v.Type().Field(i).Name + ":")
			fingerprint(b, v.Field(i), depth+1)
			b.WriteString(",")
		}
		b.WriteString("}")
	case reflect.Slice, reflect.Array:
		if v.Kind() == reflect.Slice && v.IsNil() {
			b.WriteString("nil[]")
			return
		}
		b.WriteString("[")
		for i := 0; i < v.Len(); i++ {
			fingerprint(b, v.Index(i), depth+1)
			b.WriteString(",")
		}
		b.WriteString("]")
	case reflect.Map:
		if v.IsNil() {
			b.WriteString("nilmap")
			return
		}
		var kv []string
		it := v.MapRange()
		for it.Next() {
			var e strings.Builder
			fingerprint(&e, it.Key(), depth+1)
			e.WriteString("=>")
			fingerprint(&e, it.Value(), depth+1)
			kv = append(kv, e.String())
		}
		sort.Strings(kv)
		b.WriteString("map[" + strings.Join(kv, ",") + "]")
	case reflect.String:
		fmt.Fprintf(b, "%q", v.String())
	case reflect.Bool:
		fmt.Fprintf(b, "%v", v.Bool())
	case reflect.Int, reflect.Int8, reflect.Int16, reflect.Int32, reflect.Int64:
		fmt.Fprintf(b, "%d", v.Int())
	case reflect.Uint, reflect.Uint8, reflect.Uint16, reflect.Uint32, reflect.Uint64, reflect.Uintptr:
		fmt.Fprintf(b, "%d", v.Uint())
	case reflect.Float32, reflect.Float64:
		fmt.Fprintf(b, "%v", v.Float())
	default:
		b.WriteString("<" + v.Kind().String() + ">")
	}
}

// pkgState = the package (without its extractor) and what ToPURL returns for it now.
func pkgState(p *extractor.Package) string {
	var b strings.Builder
	c := *p
	c.Extractor = nil
	fingerprint(&b, reflect.ValueOf(c), 0)
	b.WriteString(" ToPURL=")
	var u *purl.PackageURL
	if pv, _ := ev.Recover(func() { u = p.Extractor.ToPURL(p) }); pv != nil {
		b.WriteString("<panic>")
	} else {
		fingerprint(&b, reflect.ValueOf(u), 0)
		if u != nil {
			b.WriteString(" " + u.String())
		}
	}
	return b.String()
}

type conv struct {
	name string
	run  func(p *extractor.Package) string // projection of the output without ids / timestamps
}

var convs = []conv{
	{"proto", func(p *extractor.Package) string {
		res, err := sproto.ScanResultToProto(scanResult(p))
		if err != nil {
			return "error: " + err.Error()
		}
		b, err := proto.MarshalOptions{Deterministic: true}.Marshal(res.GetInventory())
		if err != nil {
			// e.g. invalid UTF-8 in a string field: fall back to the Go rendering of the message
			return fmt.Sprintf("unmarshalable: %v", res.GetInventory().GetPackages())
		}
		return string(b)
	}},
	{"spdx", func(p *extractor.Package) string {
		doc := converter.ToSPDX23(scanResult(p), converter.SPDXConfig{})
		var b strings.Builder
		for _, sp := range doc.Packages {
			fmt.Fprintf(&b, "pkg %q %q %q [", sp.PackageName, sp.PackageVersion, sp.PackageSourceInfo)
			for _, r := range sp.PackageExternalReferences {
				fmt.Fprintf(&b, "%q %q %q;", r.Category, r.RefType, r.Locator)
			}
			b.WriteString("]\n")
		}
		fmt.Fprintf(&b, "relationships=%d", len(doc.Relationships))
		return b.String()
	}},
	{"cdx", func(p *extractor.Package) string {
		bom := converter.ToCDX(scanResult(p), converter.CDXConfig{})
		var b strings.Builder
		var walk func(cs *[]cyclonedx.Component)
		walk = func(cs *[]cyclonedx.Component) {
			if cs == nil {
				return
			}
			for _, c := range *cs {
				fmt.Fprintf(&b, "comp %q %q %q %q %q [", c.Type, c.Name, c.Version, c.PackageURL, c.CPE)
				if c.Evidence != nil && c.Evidence.Occurrences != nil {
					for _, o := range *c.Evidence.Occurrences {
						fmt.Fprintf(&b, "%q;", o.Location)
					}
				}
				b.WriteString("]\n")
				walk(c.Components)
			}
		}
		walk(bom.Components)
		return b.String()
	}},
}

// cheap converters that have no comparable output of their own: only "does not change the package"
var sideConvs = []conv{
	{"purl-string", func(p *extractor.Package) string {
		if u := p.Extractor.ToPURL(p); u != nil {
			return u.String()
		}
		return ""
	}},
	{"ecosystem", func(p *extractor.Package) string { return p.Ecosystem() }},
	{"packageindex", func(p *extractor.Package) string {
		_, _ = packageindex.New([]*extractor.Package{p})
		return ""
	}},
}

var perms3 = [][3]int{{0, 1, 2}, {0, 2, 1}, {1, 0, 2}, {1, 2, 0}, {2, 0, 1}, {2, 1, 0}}

// judgePure: (1) no converter changes the package or what a fresh ToPURL() returns;
// (2) in every order of {proto, spdx, cdx} on one package object each converter's output equals
// its output on a fresh deep copy. Panics are the business of the per-converter checks.
func judgePure(p *extractor.Package, add func(key, format string, a ...any)) {
	base := make([]string, len(convs))
	for i, c := range convs {
		q := clonePkg(p)
		before := pkgState(q)
		if pv, _ := ev.Recover(func() { base[i] = c.run(q) }); pv != nil {
			return
		}
		if after := pkgState(q); after != before {
			add("conversion-mutates-package:"+c.name, "%s conversion changed the package: before %s, after %s", c.name, before, after)
		}
	}
	for _, c := range sideConvs {
		q := clonePkg(p)
		before := pkgState(q)
		if pv, _ := ev.Recover(func() { c.run(q) }); pv != nil {
			continue
		}
		if after := pkgState(q); after != before {
			add("conversion-mutates-package:"+c.name, "%s changed the package: before %s, after %s", c.name, before, after)
		}
	}
	for _, pm := range perms3 {
		q := clonePkg(p)
		var done []string
		for _, ci := range pm {
			c := convs[ci]
			var out string
			if pv, _ := ev.Recover(func() { out = c.run(q) }); pv != nil {
				return
			}
			if out != base[ci] && len(done) > 0 {
				add("conversion-order-dependent:"+c.name, "%s output after %v on the same package differs from its output on a fresh copy:\n--- fresh\n%s\n--- after %v\n%s", c.name, done, clip(base[ci]), done, clip(out))
			}
			done = append(done, c.name)
		}
	}
}

func clip(s string) string {
	if len(s) > 600 {
		s = s[:600] + "…"
	}
	for _, r := range s {
		if r != '\n' && (r < 0x20 || r == 0xFFFD) {
			return fmt.Sprintf("%q", s) // binary (proto wire format)
		}
	}
	return s
}
