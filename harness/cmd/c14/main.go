// C14 — every emitted package is well-formed and convertible.
//
// Space (finite, enumerated completely): every package returned by every
// built-in filesystem extractor (el.All, minus java/pomxmlnet: network) on every
// regular file of its own testdata/ directory, plus the closure of those
// packages under the name/version substitutions of harvest.Substitutions()
// (characters that need percent-encoding), metadata kept.
//
// Oracle (only what the property states):
//   - as-extracted packages: Name != "", len(Locations) >= 1
//   - ToPURL, Ecosystem, ScanResultToProto, ToSPDX23, ToCDX, packageindex.New never panic
//   - PURL != nil: purl.FromString(String()) succeeds; s2 = String(FromString(s1)) is a
//     fixed point of String∘FromString; GetSpecific(purl.Name, purl.Type) and
//     GetAllOfType(purl.Type) contain the package (pointer identity)
//   - proto record: name, version, locations, every PURL field + PURL string, layer details verbatim
//     also in results with two packages and two findings that target packages (16 layer relations);
//     (layer details range over {nil, full, empty diff ID, empty command, index 0, base image yes/no, all-zero})
//   - purity: no converter (purl string, ecosystem, proto, SPDX 2.3, CDX, package index) changes the package
//     or what a fresh ToPURL() returns; every converter's output is the same after any sequence of the
//     others (all permutations of {proto, spdx, cdx}) as on a fresh deep copy
//   - no qualifier of the PURL has an empty value; purl.QualifiersFromMap returns exactly the non-empty
//     entries, sorted, for all maps over a 4-key alphabet x {absent, "", "x"}
//   - CDX component: name, version, PURL string, locations (evidence occurrences) verbatim
//   - SPDX package (exists when the PURL has a name and a version): PURL locator verbatim,
//     name/version verbatim (see DC2), first two locations verbatim inside the source info
//
// Don't-care cells:
//
//	DC1  a fixture on which Extract panics, errors or exceeds 2 min yields no packages here (C02's business).
//	DC2  SPDX PackageName / PackageVersion may be the package's or the package URL's name / version
//	     (the statement does not say which "name"; Maven-like ecosystems differ).
//	DC3  SPDX has no record for packages without PURL or whose PURL lacks name or version; nothing is demanded.
//	DC4  SPDX carries locations only as free text and at most the first two; only those are demanded.
//	DC5  SPDX 2.3 and CycloneDX have no field for layer details; nothing is demanded there.
//	     (components are compared with what the wrapped packageurl-go library prints/parses: the purl
//	     package documents itself as a convenience wrapper around it, so nothing may be lost in between)
//	DC6  print→parse may normalise (case, qualifier order, empty qualifiers); only idempotence
//	     of the second application is demanded, never s2 == s1.
//	DC7  the value of Ecosystem() (only that it does not panic).
//	DC8  package metadata oneof in the proto, annotations, source code ids (not named by the statement).
//	DC9  a PURL that the parser rejects for a reason other than its type (e.g. the purl-spec rule
//	     "swift requires a namespace") is reported under its own key purl-unparsable:* — this is the
//	     "printing then parsing" clause; it is NOT folded into the type clause.
package main

import (
	"encoding/json"
	"fmt"
	"os"
	"regexp"
	"sort"
	"strings"
	"sync/atomic"
	"time"

	"github.com/CycloneDX/cyclonedx-go"
	scalibr "github.com/google/osv-scalibr"
	spb "github.com/google/osv-scalibr/binary/proto/scan_result_go_proto"

	sproto "github.com/google/osv-scalibr/binary/proto"
	"github.com/google/osv-scalibr/converter"
	"github.com/google/osv-scalibr/detector"
	"github.com/google/osv-scalibr/extractor"
	"github.com/google/osv-scalibr/inventory"
	"github.com/google/osv-scalibr/packageindex"
	"github.com/google/osv-scalibr/plugin"
	"github.com/google/osv-scalibr/purl"
	packageurl "github.com/package-url/packageurl-go"
	"github.com/spdx/tools-golang/spdx/v2/v2_3"
	"verif/ev"
	"verif/harvest"
	"verif/scankit"
)

type viol struct{ key, what string }

// layerAlphabet: the shapes of layer attribution besides nil and the full record `layer`:
// empty layer (ENV/CMD layers have no diff ID), no command, index 0, base image or not, all-zero.
var layerAlphabet = []extractor.LayerDetails{
	{Index: 2, DiffID: "", Command: "ENV PATH=/usr/local/bin:/usr/bin", InBaseImage: false},
	{Index: 4, DiffID: "", Command: "CMD [\"sh\"]", InBaseImage: true},
	{Index: 1, DiffID: "sha256:ab12", Command: "", InBaseImage: true},
	{Index: 0, DiffID: "sha256:cd34", Command: "ADD file:0123 in /", InBaseImage: false},
	{Index: 5, DiffID: "sha256:ef56", Command: "RUN make", InBaseImage: false},
	{Index: 0, DiffID: "", Command: "", InBaseImage: true},
	{Index: 7, DiffID: "", Command: "", InBaseImage: false},
	{},
}

var layer = &extractor.LayerDetails{Index: 3, DiffID: "sha256:0123456789abcdef", Command: "RUN apt-get install -y \"x y\" # é", InBaseImage: true}

func scanResult(p *extractor.Package) *scalibr.ScanResult {
	return &scalibr.ScanResult{
		Version:   "verif",
		StartTime: time.Unix(1700000000, 0), EndTime: time.Unix(1700000001, 0),
		Status:    &plugin.ScanStatus{Status: plugin.ScanStatusSucceeded},
		Inventory: inventory.Inventory{Packages: []*extractor.Package{p}},
	}
}

var quoted = regexp.MustCompile(`"[^"]*"|'[^']*'`)

// errClass turns a parser error into a stable, input-independent class.
func errClass(err error) string {
	s := err.Error()
	if i := strings.Index(s, "invalid PURL type"); i >= 0 {
		return "type"
	}
	// drop the scalibr prefix with the input string
	if i := strings.LastIndex(s, "\": "); i >= 0 && strings.HasPrefix(s, "failed to decode PURL string") {
		s = s[i+3:]
	}
	s = quoted.ReplaceAllString(s, "_")
	s = strings.Map(func(r rune) rune {
		switch {
		case r >= 'a' && r <= 'z', r >= 'A' && r <= 'Z':
			return r
		}
		return '-'
	}, s)
	for strings.Contains(s, "--") {
		s = strings.ReplaceAll(s, "--", "-")
	}
	s = strings.Trim(s, "-")
	if len(s) > 50 {
		s = s[:50]
	}
	return s
}

func eqStrs(a, b []string) bool {
	if len(a) != len(b) {
		return false
	}
	for i := range a {
		if a[i] != b[i] {
			return false
		}
	}
	return true
}

// judgeOne checks every per-package clause. purlOut receives the PURL (nil if none / panic).
func judgeOne(it *harvest.Item) (vs []viol, pu *purl.PackageURL, purlPanicked bool) {
	p := it.Pkg
	e := it.Ex.E
	add := func(key, format string, a ...any) {
		vs = append(vs, viol{key, fmt.Sprintf("[%s] ", it.ID()) + fmt.Sprintf(format, a...)})
	}
	if it.Synth == "" {
		if p.Name == "" {
			add("empty-name:"+it.Ex.Name, "extractor emitted a package with empty Name (version %q, locations %q, metadata %T)", p.Version, p.Locations, p.Metadata)
		}
		if len(p.Locations) == 0 {
			add("no-location:"+it.Ex.Name, "extractor emitted package %q@%q without any location", p.Name, p.Version)
		}
	}
	// ToPURL
	if pv, st := ev.Recover(func() { pu = e.ToPURL(p) }); pv != nil {
		add("panic:ToPURL:"+ev.PanicSite(st), "ToPURL panicked: %v (metadata %T)", pv, p.Metadata)
		purlPanicked = true
	}
	// Ecosystem
	ecoPanicked := false
	if pv, st := ev.Recover(func() { _ = e.Ecosystem(p); _ = p.Ecosystem() }); pv != nil {
		add("panic:Ecosystem:"+ev.PanicSite(st), "Ecosystem panicked: %v (metadata %T)", pv, p.Metadata)
		ecoPanicked = true
	}
	if purlPanicked {
		// every converter calls ToPURL first: same root cause, nothing further to learn
		return vs, nil, true
	}
	var s1 string
	if pu != nil {
		// a qualifier with an empty value is not a valid qualifier (purl.QualifiersFromMap: "Empty
		// value strings are invalid qualifiers according to the purl spec so we filter them out"):
		// it is in the struct and in the proto, but not in what print -> parse gives back
		for _, q := range pu.Qualifiers {
			if q.Value == "" {
				add("purl-qualifier-empty-value:"+strings.ToLower(pu.Type), "ToPURL returned %+v: qualifier %q has an empty value (prints as %q; parsing that drops the qualifier)", *pu, q.Key, pu.String())
				break
			}
		}
		s1 = pu.String()
		// type accepted / print-parse idempotent
		u2, err := purl.FromString(s1)
		if err != nil {
			if errClass(err) == "type" {
				add("purl-type-rejected:"+strings.ToLower(pu.Type), "ToPURL gave %q but purl.FromString rejects its type: %v", s1, err)
			} else {
				add("purl-unparsable:"+strings.ToLower(pu.Type)+":"+errClass(err), "ToPURL gave %q (%+v) which purl.FromString cannot parse: %v", s1, *pu, err)
			}
		} else {
			// nothing is lost between print and parse: the reference for the components is the
			// packageurl-go library that the purl package wraps (same print, same parse)
			ref := packageurl.PackageURL{Type: pu.Type, Namespace: pu.Namespace, Name: pu.Name, Version: pu.Version, Qualifiers: packageurl.Qualifiers(pu.Qualifiers), Subpath: pu.Subpath}
			if rs := ref.ToString(); rs != s1 {
				add("purl-print-differs-from-library:"+strings.ToLower(pu.Type), "PURL %+v prints as %q, the wrapped purl library prints %q", *pu, s1, rs)
			} else if rp, rerr := packageurl.FromString(rs); rerr == nil {
				diff := func(c, a, b string) {
					if a != b {
						add("purl-print-parse-loses:"+c, "PURL %+v prints as %q; parsing that gives %s %q, the wrapped purl library gives %q", *pu, s1, c, a, b)
					}
				}
				diff("type", u2.Type, rp.Type)
				diff("namespace", u2.Namespace, rp.Namespace)
				diff("name", u2.Name, rp.Name)
				diff("version", u2.Version, rp.Version)
				diff("subpath", u2.Subpath, rp.Subpath)
				diff("qualifiers", fmt.Sprint(u2.Qualifiers), fmt.Sprint(purl.Qualifiers(rp.Qualifiers)))
			}
			s2 := u2.String()
			u3, err := purl.FromString(s2)
			if err != nil {
				add("purl-reparse-fails:"+strings.ToLower(pu.Type), "%q parses and prints as %q, which no longer parses: %v", s1, s2, err)
			} else if s3 := u3.String(); s3 != s2 {
				add("purl-print-parse-not-idempotent:"+strings.ToLower(pu.Type), "%q -> %q -> %q", s1, s2, s3)
			}
		}
	}

	// conversions are pure: they neither change the package nor depend on what ran before
	if !ecoPanicked {
		judgePure(p, add)
	}

	// conversions run on a copy that carries layer details
	cp := *p
	cp.LayerDetails = layer
	wantPurl := s1

	// proto
	if !ecoPanicked {
		var res *spb.ScanResult
		var err error
		if pv, st := ev.Recover(func() { res, err = sproto.ScanResultToProto(scanResult(&cp)) }); pv != nil {
			add("panic:proto:"+ev.PanicSite(st), "ScanResultToProto panicked: %v (metadata %T)", pv, p.Metadata)
		} else if err != nil {
			add("proto-error", "ScanResultToProto failed: %v", err)
		} else if res.GetInventory() == nil || len(res.GetInventory().GetPackages()) != 1 {
			add("proto-record-count", "proto inventory holds %d packages for 1", len(res.GetInventory().GetPackages()))
		} else {
			g := res.GetInventory().GetPackages()[0]
			if g.GetName() != p.Name {
				add("proto-field:name", "proto name %q != %q", g.GetName(), p.Name)
			}
			if g.GetVersion() != p.Version {
				add("proto-field:version", "proto version %q != %q", g.GetVersion(), p.Version)
			}
			if !eqStrs(g.GetLocations(), p.Locations) {
				add("proto-field:locations", "proto locations %q != %q", g.GetLocations(), p.Locations)
			}
			ld := g.GetLayerDetails()
			if ld == nil || int(ld.GetIndex()) != layer.Index || ld.GetDiffId() != layer.DiffID || ld.GetCommand() != layer.Command || ld.GetInBaseImage() != layer.InBaseImage {
				add("proto-field:layer-details", "proto layer details %v != %+v", ld, *layer)
			}
			gp := g.GetPurl()
			switch {
			case pu == nil && gp != nil:
				add("proto-field:purl", "package has no PURL but proto carries %v", gp)
			case pu != nil && gp == nil:
				add("proto-field:purl", "proto dropped PURL %q", wantPurl)
			case pu != nil:
				if gp.GetPurl() != wantPurl {
					add("proto-field:purl", "proto purl string %q != %q", gp.GetPurl(), wantPurl)
				}
				if gp.GetType() != pu.Type || gp.GetNamespace() != pu.Namespace || gp.GetName() != pu.Name || gp.GetVersion() != pu.Version || gp.GetSubpath() != pu.Subpath {
					add("proto-field:purl-parts", "proto purl parts %v != %+v", gp, *pu)
				}
				if len(gp.GetQualifiers()) != len(pu.Qualifiers) {
					add("proto-field:purl-parts", "proto purl qualifiers %v != %v", gp.GetQualifiers(), pu.Qualifiers)
				} else {
					for i, q := range pu.Qualifiers {
						if gp.GetQualifiers()[i].GetKey() != q.Key || gp.GetQualifiers()[i].GetValue() != q.Value {
							add("proto-field:purl-parts", "proto purl qualifiers %v != %v", gp.GetQualifiers(), pu.Qualifiers)
							break
						}
					}
				}
			}
		}
		// the rest of the layer-details alphabet: every field comes back verbatim (compared
		// through the getters, so an all-zero record may be absent or empty)
		for _, ld := range layerAlphabet {
			ld := ld
			var res3 *spb.ScanResult
			if pv, st := ev.Recover(func() { cp3 := *p; cp3.LayerDetails = &ld; res3, _ = sproto.ScanResultToProto(scanResult(&cp3)) }); pv != nil {
				add("panic:proto:"+ev.PanicSite(st), "ScanResultToProto panicked with layer details %+v: %v", ld, pv)
			} else if res3 != nil {
				if pk := res3.GetInventory().GetPackages(); len(pk) == 1 {
					g := pk[0].GetLayerDetails()
					if int(g.GetIndex()) != ld.Index || g.GetDiffId() != ld.DiffID || g.GetCommand() != ld.Command || g.GetInBaseImage() != ld.InBaseImage {
						add("proto-field:layer-details", "proto layer details %v != %+v", g, ld)
					}
				}
			}
		}
		// nil layer details stay nil
		var res2 *spb.ScanResult
		if pv, _ := ev.Recover(func() { cp2 := *p; cp2.LayerDetails = nil; res2, _ = sproto.ScanResultToProto(scanResult(&cp2)) }); pv == nil && res2 != nil {
			if pk := res2.GetInventory().GetPackages(); len(pk) == 1 && pk[0].GetLayerDetails() != nil {
				add("proto-field:layer-details", "package without layer details got %v in the proto", pk[0].GetLayerDetails())
			}
		}
		// results with several packages (and findings that target packages): each record keeps
		// its own package's layer details, for every relation between two layers
		// {same, different diff ID} x {same, different index} x {.. command} x {.. in-base-image}.
		judgeMulti(p, pu, wantPurl, add)
	}

	// SPDX
	{
		var doc *v2_3.Document
		if pv, st := ev.Recover(func() { doc = converter.ToSPDX23(scanResult(&cp), converter.SPDXConfig{}) }); pv != nil {
			add("panic:spdx:"+ev.PanicSite(st), "ToSPDX23 panicked: %v", pv)
		} else if pu != nil && pu.Name != "" && pu.Version != "" {
			var recs []*v2_3.Package
			for _, sp := range doc.Packages {
				for _, r := range sp.PackageExternalReferences {
					if r.RefType == "purl" {
						recs = append(recs, sp)
						break
					}
				}
			}
			if len(recs) != 1 {
				add("spdx-record-count", "SPDX document holds %d PURL-bearing packages for one package with PURL %q", len(recs), wantPurl)
			} else {
				sp := recs[0]
				loc := ""
				n := 0
				for _, r := range sp.PackageExternalReferences {
					if r.RefType == "purl" {
						loc = r.Locator
						n++
					}
				}
				if n != 1 || loc != wantPurl {
					add("spdx-field:purl", "SPDX purl locator %q (x%d) != %q", loc, n, wantPurl)
				}
				if sp.PackageName != p.Name && sp.PackageName != pu.Name {
					add("spdx-field:name", "SPDX PackageName %q is neither package name %q nor PURL name %q", sp.PackageName, p.Name, pu.Name)
				}
				if sp.PackageVersion != p.Version && sp.PackageVersion != pu.Version {
					add("spdx-field:version", "SPDX PackageVersion %q is neither %q nor %q", sp.PackageVersion, p.Version, pu.Version)
				}
				for i := 0; i < len(p.Locations) && i < 2; i++ {
					if !strings.Contains(sp.PackageSourceInfo, p.Locations[i]) {
						add("spdx-field:locations", "SPDX PackageSourceInfo %q lacks location %q", sp.PackageSourceInfo, p.Locations[i])
					}
				}
			}
		}
	}

	// CycloneDX
	{
		var bom *cyclonedx.BOM
		if pv, st := ev.Recover(func() { bom = converter.ToCDX(scanResult(&cp), converter.CDXConfig{}) }); pv != nil {
			add("panic:cdx:"+ev.PanicSite(st), "ToCDX panicked: %v", pv)
		} else if bom.Components == nil || len(*bom.Components) != 1 {
			n := 0
			if bom.Components != nil {
				n = len(*bom.Components)
			}
			add("cdx-record-count", "CycloneDX BOM holds %d components for 1 package", n)
		} else {
			c := (*bom.Components)[0]
			if c.Name != p.Name {
				add("cdx-field:name", "CDX name %q != %q", c.Name, p.Name)
			}
			if c.Version != p.Version {
				add("cdx-field:version", "CDX version %q != %q", c.Version, p.Version)
			}
			if c.PackageURL != wantPurl {
				add("cdx-field:purl", "CDX purl %q != %q", c.PackageURL, wantPurl)
			}
			var locs []string
			if c.Evidence != nil && c.Evidence.Occurrences != nil {
				for _, o := range *c.Evidence.Occurrences {
					locs = append(locs, o.Location)
				}
			}
			if !eqStrs(locs, p.Locations) {
				add("cdx-field:locations", "CDX evidence locations %q != %q", locs, p.Locations)
			}
		}
	}
	return vs, pu, false
}

func sameLD(g *spb.LayerDetails, ld *extractor.LayerDetails) bool {
	return int(g.GetIndex()) == ld.Index && g.GetDiffId() == ld.DiffID && g.GetCommand() == ld.Command && g.GetInBaseImage() == ld.InBaseImage
}

// judgeMulti converts scan results holding two copies of the package with layer details (A, B),
// a finding whose target is a third copy with layer C (diff ID of A, everything else different)
// and a finding that targets the first copy itself, for all 16 relations between A and B.
func judgeMulti(p *extractor.Package, pu *purl.PackageURL, wantPurl string, add func(key, format string, a ...any)) {
	a := extractor.LayerDetails{Index: 1, DiffID: "sha256:aaaa", Command: "RUN a", InBaseImage: false}
	for m := 0; m < 16; m++ {
		b := a
		if m&1 != 0 {
			b.DiffID = "sha256:bbbb"
		}
		if m&2 != 0 {
			b.Index = 2
		}
		if m&4 != 0 {
			b.Command = "RUN b"
		}
		if m&8 != 0 {
			b.InBaseImage = true
		}
		c := extractor.LayerDetails{Index: 9, DiffID: a.DiffID, Command: "COPY target", InBaseImage: true}
		pa, pb, pc := *p, *p, *p
		la, lb, lc := a, b, c
		pa.LayerDetails, pb.LayerDetails, pc.LayerDetails = &la, &lb, &lc
		adv := &detector.Advisory{ID: &detector.AdvisoryID{Publisher: "VERIF", Reference: "V-1"}, Type: detector.TypeVulnerability, Title: "t", Sev: &detector.Severity{Severity: detector.SeverityMedium}}
		res := scanResult(&pa)
		res.Inventory.Packages = []*extractor.Package{&pa, &pb}
		res.Inventory.Findings = []*detector.Finding{
			{Adv: adv, Target: &detector.TargetDetails{Package: &pc, Location: []string{"f"}}},
			{Adv: adv, Target: &detector.TargetDetails{Package: &pa}},
		}
		var out *spb.ScanResult
		var err error
		if pv, st := ev.Recover(func() { out, err = sproto.ScanResultToProto(res) }); pv != nil {
			add("panic:proto:"+ev.PanicSite(st), "ScanResultToProto panicked on a 2-package result with findings: %v", pv)
			return
		} else if err != nil {
			add("proto-error", "ScanResultToProto failed on a 2-package result with findings: %v", err)
			return
		}
		pk := out.GetInventory().GetPackages()
		fs := out.GetInventory().GetFindings()
		if len(pk) != 2 || len(fs) != 2 || fs[0].GetTarget().GetPackage() == nil || fs[1].GetTarget().GetPackage() == nil {
			add("proto-multi:record-count", "2 packages + 2 targeted findings became %d packages, %d findings", len(pk), len(fs))
			return
		}
		recs := []*spb.Package{pk[0], pk[1], fs[0].GetTarget().GetPackage(), fs[1].GetTarget().GetPackage()}
		want := []*extractor.LayerDetails{&la, &lb, &lc, &la}
		role := []string{"package 0", "package 1", "target of finding 0", "target of finding 1 (= package 0)"}
		for i, g := range recs {
			if !sameLD(g.GetLayerDetails(), want[i]) {
				add("proto-multi:layer-details", "result with layers A=%+v B=%+v C=%+v: %s carries %v, want %+v", la, lb, lc, role[i], g.GetLayerDetails(), *want[i])
			}
			if g.GetName() != p.Name || g.GetVersion() != p.Version || !eqStrs(g.GetLocations(), p.Locations) || (pu != nil && g.GetPurl().GetPurl() != wantPurl) || (pu == nil && g.GetPurl() != nil) {
				add("proto-multi:record", "%s of a multi-package result: name/version/locations/purl %q %q %q %q differ from the package's %q %q %q %q", role[i], g.GetName(), g.GetVersion(), g.GetLocations(), g.GetPurl().GetPurl(), p.Name, p.Version, p.Locations, wantPurl)
			}
		}
	}
}

// judgeGroup checks the package-index clause for a group of packages indexed together
// (the packages one extractor returned for one fixture, under one substitution).
func judgeGroup(items []*harvest.Item, purls []*purl.PackageURL, skip []bool) (vs []viol) {
	var pkgs []*extractor.Package
	for i, it := range items {
		if !skip[i] {
			pkgs = append(pkgs, it.Pkg)
		}
	}
	var px *packageindex.PackageIndex
	var err error
	if pv, st := ev.Recover(func() { px, err = packageindex.New(pkgs) }); pv != nil {
		return []viol{{"panic:packageindex:" + ev.PanicSite(st), fmt.Sprintf("[%s] packageindex.New panicked on %d packages: %v", items[0].ID(), len(pkgs), pv)}}
	} else if err != nil {
		return []viol{{"packageindex-error", fmt.Sprintf("[%s] packageindex.New: %v", items[0].ID(), err)}}
	}
	ofType := map[string]map[*extractor.Package]bool{}
	specific := map[[2]string]map[*extractor.Package]bool{}
	for i, it := range items {
		pu := purls[i]
		if skip[i] || pu == nil {
			continue
		}
		if _, ok := ofType[pu.Type]; !ok {
			m := map[*extractor.Package]bool{}
			if pv, st := ev.Recover(func() {
				for _, q := range px.GetAllOfType(pu.Type) {
					m[q] = true
				}
			}); pv != nil {
				vs = append(vs, viol{"panic:packageindex:" + ev.PanicSite(st), fmt.Sprintf("[%s] GetAllOfType panicked: %v", it.ID(), pv)})
			}
			ofType[pu.Type] = m
		}
		k := [2]string{pu.Type, pu.Name}
		if _, ok := specific[k]; !ok {
			m := map[*extractor.Package]bool{}
			if pv, st := ev.Recover(func() {
				for _, q := range px.GetSpecific(pu.Name, pu.Type) {
					m[q] = true
				}
			}); pv != nil {
				vs = append(vs, viol{"panic:packageindex:" + ev.PanicSite(st), fmt.Sprintf("[%s] GetSpecific panicked: %v", it.ID(), pv)})
			}
			specific[k] = m
		}
		if !ofType[pu.Type][it.Pkg] {
			vs = append(vs, viol{"index-miss:GetAllOfType", fmt.Sprintf("[%s] GetAllOfType(%q) does not return the package with PURL %q", it.ID(), pu.Type, pu.String())})
		}
		if !specific[k][it.Pkg] {
			vs = append(vs, viol{"index-miss:GetSpecific", fmt.Sprintf("[%s] GetSpecific(%q, %q) does not return the package with PURL %q", it.ID(), pu.Name, pu.Type, pu.String())})
		}
	}
	return vs
}

type replay struct {
	Extractor string `json:"extractor"`
	Fixture   string `json:"fixture"`
	Env       string `json:"os_release_env"`
	Index     int    `json:"index"`
	Synth     string `json:"synth"`
}

type unit struct{ items []*harvest.Item }

var purlChanged, purlEscaped atomic.Int64

func runUnit(r *ev.Run, u unit, report func(it *harvest.Item, v viol)) {
	purls := make([]*purl.PackageURL, len(u.items))
	skip := make([]bool, len(u.items))
	for i, it := range u.items {
		vs, pu, pp := judgeOne(it)
		purls[i], skip[i] = pu, pp
		if r != nil {
			r.Evals.Add(1)
			if pu != nil && it.Base != nil {
				var bu *purl.PackageURL
				ev.Recover(func() { bu = it.Base.Ex.E.ToPURL(it.Base.Pkg) })
				if bu != nil && bu.String() != pu.String() {
					purlChanged.Add(1)
					if strings.Contains(pu.String(), "%") {
						purlEscaped.Add(1)
					}
				}
			}
			if pu != nil {
				r.Distinct(it.Ex.Name + "\x00" + it.Env + "\x00" + it.Pkg.Name + "\x00" + it.Pkg.Version + "\x00" + pu.String() + "\x00" + it.Synth)
			}
		}
		for _, v := range vs {
			report(it, v)
		}
	}
	for _, v := range judgeGroup(u.items, purls, skip) {
		report(u.items[0], v)
	}
}

func scratchDir() string {
	d := fmt.Sprintf("/dev/shm/verif-c14-%d", os.Getpid())
	_ = os.RemoveAll(d)
	if err := os.MkdirAll(d+"/tmp", 0o755); err != nil {
		fmt.Fprintln(os.Stderr, "scratch:", err)
		os.Exit(3)
	}
	os.Setenv("TMPDIR", d+"/tmp")
	return d
}

func doReplay(file string) {
	b, err := os.ReadFile(file)
	if err != nil {
		fmt.Fprintln(os.Stderr, err)
		os.Exit(3)
	}
	var rec struct {
		Key    string `json:"key"`
		What   string `json:"what"`
		Replay replay `json:"replay"`
	}
	if err := json.Unmarshal(b, &rec); err != nil {
		fmt.Fprintln(os.Stderr, err)
		os.Exit(3)
	}
	if rec.Replay.Extractor == "" && strings.HasPrefix(rec.Replay.Synth, "qualifiers-from-map:") {
		in := map[string]string{}
		var want []string
		for _, kv := range strings.Split(strings.TrimPrefix(rec.Replay.Synth, "qualifiers-from-map:"), ",") {
			if k, v, ok := strings.Cut(kv, "="); ok {
				in[k] = v
				if v != "" {
					want = append(want, kv)
				}
			}
		}
		sort.Strings(want)
		desc := fmt.Sprintf("%q", in)
		var got []string
		for _, q := range purl.QualifiersFromMap(in) {
			got = append(got, q.Key+"="+q.Value)
		}
		fmt.Printf("replay %s: purl.QualifiersFromMap(%s) = %q, want %q; map afterwards %q\n", rec.Key, desc, got, want, in)
		bad := !eqStrs(got, want)
		for _, w := range want {
			k, v, _ := strings.Cut(w, "=")
			bad = bad || in[k] != v
		}
		if bad {
			os.Exit(1)
		}
		os.Exit(0)
	}
	if rec.Replay.Extractor == "" && strings.HasPrefix(rec.Replay.Synth, "type:") {
		t := strings.TrimPrefix(rec.Replay.Synth, "type:")
		_, err := purl.FromString("pkg:" + t + "/ns/name@1?channel=c")
		fmt.Printf("replay %s: purl.FromString(pkg:%s/ns/name@1?channel=c) -> err=%v\n", rec.Key, t, err)
		if err != nil && errClass(err) == "type" {
			os.Exit(1)
		}
		os.Exit(0)
	}
	scratch := scratchDir()
	defer os.RemoveAll(scratch)
	var ex *harvest.Ex
	for _, e := range harvest.Extractors() {
		if e.Name == rec.Replay.Extractor {
			e := e
			ex = &e
		}
	}
	if ex == nil {
		fmt.Println("replay: unknown extractor", rec.Replay.Extractor)
		os.RemoveAll(scratch)
		os.Exit(3)
	}
	src := ev.RepoDir() + "/" + ex.PkgDir + "/testdata"
	var env harvest.OSEnv
	for _, e := range harvest.OSEnvs() {
		if e.Label == rec.Replay.Env {
			env = e
		}
	}
	if err := harvest.PrepareTestdata(src, scratch+"/td", env); err != nil {
		fmt.Println("replay:", err)
		os.RemoveAll(scratch)
		os.Exit(3)
	}
	rel := strings.TrimPrefix(rec.Replay.Fixture, ex.PkgDir+"/testdata/")
	pkgs, req, xerr, pv, to := harvest.ExtractOne(ex.E, scratch+"/td", rel)
	fmt.Printf("replay %s: extractor=%s fixture=%s required=%v packages=%d err=%v panic=%v timeout=%v\n", rec.Key, ex.Name, rec.Replay.Fixture, req, len(pkgs), xerr, pv, to)
	var items []*harvest.Item
	for k, p := range pkgs {
		if p == nil {
			continue
		}
		p.Extractor = ex.E
		it := &harvest.Item{Ex: *ex, Fixture: rec.Replay.Fixture, Env: rec.Replay.Env, Required: req, Index: k, Pkg: p}
		if strings.HasPrefix(rec.Replay.Synth, "blank:") {
			if x := harvest.ApplyBlank(it, strings.Split(strings.TrimPrefix(rec.Replay.Synth, "blank:"), "+")); x != nil {
				it = x
			}
		} else if rec.Replay.Synth != "" {
			for _, s := range append(append(harvest.Substitutions(), harvest.PairSubstitutions()...), harvest.PurlFieldSubstitutions()...) {
				if s.Label == rec.Replay.Synth {
					if x := harvest.Apply(it, s); x != nil {
						it = x
					}
				}
			}
		}
		items = append(items, it)
	}
	hit := false
	runUnit(nil, unit{items}, func(it *harvest.Item, v viol) {
		if v.key == rec.Key && (it.Index == rec.Replay.Index || strings.HasPrefix(v.key, "index-miss") || strings.HasPrefix(v.key, "panic:packageindex")) {
			if !hit {
				fmt.Printf("reproduced %s: %s\n", v.key, v.what)
			}
			hit = true
		}
	})
	os.RemoveAll(scratch)
	if hit {
		os.Exit(1)
	}
	fmt.Println("not reproduced: the case now satisfies the property")
	os.Exit(0)
}

func main() {
	scankit.Quiet()
	if f := os.Getenv("VERIF_REPLAY"); f != "" {
		doReplay(f)
	}
	r := ev.Start("C14", "exploration", 4*time.Minute, 30*time.Minute)
	scratch := scratchDir()
	items, st, err := harvest.Run(ev.RepoDir(), scratch, r.ParallelFor)
	if err != nil {
		os.RemoveAll(scratch)
		fmt.Fprintln(os.Stderr, "harvest:", err)
		os.Exit(3)
	}
	r.Set("harvest", st)
	if os.Getenv("VERIF_C14_DUMP") != "" { // debugging aid: list the harvest
		for _, it := range items {
			u := "<nil>"
			ev.Recover(func() {
				if pu := it.Ex.E.ToPURL(it.Pkg); pu != nil {
					u = pu.String()
				}
			})
			eco := ""
			ev.Recover(func() { eco = it.Pkg.Ecosystem() })
			fmt.Printf("DUMP %s name=%q version=%q purl=%s ecosystem=%q\n", it.ID(), it.Pkg.Name, it.Pkg.Version, u, eco)
		}
	}
	for _, s := range st.ExtractPanics {
		r.Assume("DC1 skipped (Extract panicked on a fixture; C02 decides that): " + s)
	}
	for _, s := range st.ExtractTimeouts {
		r.Assume("DC1 skipped (Extract exceeded 2 min on a fixture): " + s)
	}
	for n, why := range harvest.SkipExtractors {
		r.Assume("extractor " + n + " not run: " + why)
	}

	// Closure bound: every harvested package x every substitution. quick: each character
	// class alone in the name, alone in the version, all together (18); thorough adds every
	// (name class x version class) pair (64 more).
	perShape := 1 << 30
	shapeSeen := map[string]int{}
	subs := append(harvest.Substitutions(), harvest.PurlFieldSubstitutions()...)
	if r.Thorough() {
		subs = append(subs, harvest.PairSubstitutions()...)
	}

	// units: (extractor, fixture, substitution) groups, as-extracted groups first
	var units []unit
	group := map[string][]*harvest.Item{}
	var order []string
	for _, it := range items {
		k := it.Ex.Name + "\x00" + it.Fixture + "\x00" + it.Env
		if _, ok := group[k]; !ok {
			order = append(order, k)
		}
		group[k] = append(group[k], it)
	}
	for _, k := range order {
		units = append(units, unit{group[k]})
	}
	nBase := len(units)
	shapes := 0
	synthN := 0
	for _, k := range order {
		var chosen []*harvest.Item
		for _, it := range group[k] {
			sk := harvest.ShapeKey(it)
			if shapeSeen[sk] == 0 {
				shapes++
			}
			if shapeSeen[sk] < perShape {
				shapeSeen[sk]++
				chosen = append(chosen, it)
			}
		}
		if len(chosen) == 0 {
			continue
		}
		for _, s := range subs {
			var g []*harvest.Item
			for _, it := range chosen {
				if x := harvest.Apply(it, s); x != nil {
					g = append(g, x)
				}
			}
			if len(g) == 0 {
				continue
			}
			synthN += len(g)
			units = append(units, unit{g})
		}
	}
	// optional metadata fields that ToPURL turns into qualifiers, blanked one and two at a time
	blankN := 0
	for _, k := range order {
		byLabel := map[string][]*harvest.Item{}
		var labels []string
		for _, it := range group[k] {
			for _, x := range harvest.BlankVariants(it) {
				if _, ok := byLabel[x.Synth]; !ok {
					labels = append(labels, x.Synth)
				}
				byLabel[x.Synth] = append(byLabel[x.Synth], x)
			}
		}
		sort.Strings(labels)
		for _, l := range labels {
			blankN += len(byLabel[l])
			units = append(units, unit{byLabel[l]})
		}
	}
	r.Set("blanked_qualifier_field_packages", blankN)
	r.Set("units", map[string]int{"as_extracted_groups": nBase, "substituted_groups": len(units) - nBase, "substituted_packages": synthN, "structural_classes": shapes, "substitutions": len(subs)})

	typesSeen := map[string]bool{}
	type pending struct {
		v  viol
		rp replay
	}
	found := make([][]pending, len(units))
	done := r.ParallelFor(len(units), func(i int) {
		runUnit(r, units[i], func(it *harvest.Item, v viol) {
			found[i] = append(found[i], pending{v, replay{it.Ex.Name, it.Fixture, it.Env, it.Index, it.Synth}})
		})
	})
	for _, f := range found { // reported in enumeration order: deterministic first witness per key
		for _, pd := range f {
			r.Violation(pd.v.key, pd.v.what, pd.rp)
		}
	}
	r.Set("substituted_packages_whose_purl_changed", purlChanged.Load())
	r.Set("substituted_packages_whose_purl_needs_percent_encoding", purlEscaped.Load())
	// purl.QualifiersFromMap over every map with keys from a 4-key alphabet (adjacent in sort
	// order) and values from {"", "x"}: exactly the non-empty entries, sorted by key; the caller's
	// non-empty entries stay in the map.
	for _, keys := range [][]string{{"a", "b", "c", "d"}, {"arch", "classifier", "distro", "type"}} {
		for m := 0; m < 81; m++ { // base-3 digits: absent / "" / "x"
			in := map[string]string{}
			var want []string
			for i, d := 0, m; i < 4; i, d = i+1, d/3 {
				switch d % 3 {
				case 1:
					in[keys[i]] = ""
				case 2:
					in[keys[i]] = "x"
					want = append(want, keys[i]+"=x")
				}
			}
			desc := fmt.Sprintf("%q", in)
			var enc []string
			for _, k := range keys {
				if v, ok := in[k]; ok {
					enc = append(enc, k+"="+v)
				}
			}
			rp := replay{Synth: "qualifiers-from-map:" + strings.Join(enc, ",")}
			r.Evals.Add(1)
			r.Distinct("QualifiersFromMap|" + desc)
			var got []string
			pv, st := ev.Recover(func() {
				for _, q := range purl.QualifiersFromMap(in) {
					got = append(got, q.Key+"="+q.Value)
				}
			})
			if pv != nil {
				r.Violation("panic:QualifiersFromMap:"+ev.PanicSite(st), fmt.Sprintf("purl.QualifiersFromMap(%s) panicked: %v", desc, pv), rp)
				continue
			}
			if !eqStrs(got, want) {
				r.Violation("qualifiers-from-map:result", fmt.Sprintf("purl.QualifiersFromMap(%s) = %q, want exactly the non-empty entries sorted by key %q", desc, got, want), rp)
			}
			for _, w := range want {
				k, v, _ := strings.Cut(w, "=")
				if in[k] != v {
					r.Violation("qualifiers-from-map:input-entry-lost", fmt.Sprintf("after purl.QualifiersFromMap(%s) the caller's map no longer has %s", desc, w), rp)
				}
			}
		}
	}
	// coverage: PURL types seen dynamically vs referenced syntactically
	for _, it := range items {
		func() {
			defer func() { _ = recover() }()
			if u := it.Ex.E.ToPURL(it.Pkg); u != nil {
				typesSeen[u.Type] = true
			}
		}()
	}
	var dyn []string
	for t := range typesSeen {
		dyn = append(dyn, t)
	}
	sort.Strings(dyn)
	r.Set("purl_types_in_harvest", dyn)
	if all, err := harvest.EmittedTypes(ev.RepoDir(), items); err == nil {
		var missing []string
		for _, t := range all {
			if !typesSeen[t] {
				missing = append(missing, t)
			}
		}
		r.Set("purl_types_referenced_but_not_harvested", missing)
		// The type clause is decidable for those without a package: the emitted type constant must be accepted.
		for _, t := range missing {
			r.Evals.Add(1)
			if _, err := purl.FromString("pkg:" + t + "/ns/name@1?channel=c"); err != nil && errClass(err) == "type" {
				r.Violation("purl-type-rejected:"+strings.ToLower(t), fmt.Sprintf("extractor source emits PURL type %q (no fixture package available) but purl.FromString rejects it: %v", t, err), replay{Synth: "type:" + t})
			}
		}
	}
	for i, it := range items {
		if i%(len(items)/6+1) == 0 {
			u, _ := func() (s string, e error) {
				defer func() { _ = recover() }()
				if pu := it.Ex.E.ToPURL(it.Pkg); pu != nil {
					return pu.String(), nil
				}
				return "<nil>", nil
			}()
			r.Sample(map[string]any{"extractor": it.Ex.Name, "fixture": it.Fixture, "name": it.Pkg.Name, "version": it.Pkg.Version, "locations": it.Pkg.Locations, "purl": u})
		}
	}
	os.RemoveAll(scratch)
	r.Finish("every harvested/substituted package: name, location, no panic in ToPURL/Ecosystem/proto/SPDX/CDX/index; PURL type accepted, print∘parse idempotent, index lookups contain it; proto/SPDX/CDX carry name, version, locations, PURL, layer details verbatim",
		done == len(units))
}
