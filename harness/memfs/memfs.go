// Package memfs is an in-memory scalibrfs.FS whose directory listing order is a
// parameter and whose every operation is a numbered site at which a fault can be
// injected. It is the environment model for C01, C08, C09, C10 and C20.
package memfs

import (
	"errors"
	"fmt"
	"io"
	"io/fs"
	"path"
	"strings"
	"sync"
	"time"
)

// Kind of a node.
type Kind int

// Node kinds.
const (
	Dir Kind = iota
	File
	Symlink
	Special // named pipe
)

// Node is one entry of the tree. Children are listed in slice order.
type Node struct {
	Name     string
	Kind     Kind
	Data     string
	Perm     fs.FileMode // permission bits; 0 means default (0644 / 0755)
	Target   string      // symlink target, relative to the link's directory or absolute ("/x")
	// FakeSize, if non-zero, is what Stat reports as the size of a regular file (its readable
	// content stays Data): sizes beyond what can be materialised, e.g. 1<<32+1.
	FakeSize int64
	Children []*Node
}

// D, F, L, P are constructors.
func D(name string, ch ...*Node) *Node { return &Node{Name: name, Kind: Dir, Children: ch} }

// F makes a regular file.
func F(name, data string) *Node { return &Node{Name: name, Kind: File, Data: data} }

// L makes a symlink.
func L(name, target string) *Node { return &Node{Name: name, Kind: Symlink, Target: target} }

// P makes a named pipe.
func P(name string) *Node { return &Node{Name: name, Kind: Special} }

// Clone deep-copies a tree.
func (n *Node) Clone() *Node {
	c := *n
	c.Children = nil
	for _, ch := range n.Children {
		c.Children = append(c.Children, ch.Clone())
	}
	return &c
}

// String renders the tree canonically (listing order preserved).
func (n *Node) String() string {
	var b strings.Builder
	n.str(&b)
	return b.String()
}
func (n *Node) str(b *strings.Builder) {
	switch n.Kind {
	case Dir:
		fmt.Fprintf(b, "%s/{", n.Name)
		for i, c := range n.Children {
			if i > 0 {
				b.WriteString(" ")
			}
			c.str(b)
		}
		b.WriteString("}")
	case File:
		fmt.Fprintf(b, "%s=%q", n.Name, n.Data)
		if n.Perm != 0 {
			fmt.Fprintf(b, "%%%o", n.Perm)
		}
	case Symlink:
		fmt.Fprintf(b, "%s->%s", n.Name, n.Target)
	case Special:
		fmt.Fprintf(b, "%s|pipe", n.Name)
	}
}

func (n *Node) mode() fs.FileMode {
	p := n.Perm
	switch n.Kind {
	case Dir:
		if p == 0 {
			p = 0o755
		}
		return fs.ModeDir | p
	case Symlink:
		return fs.ModeSymlink | 0o777
	case Special:
		return fs.ModeNamedPipe | 0o644
	}
	if p == 0 {
		p = 0o644
	}
	return p
}

// FS is the file system. The zero Faults table injects nothing.
type FS struct {
	Root          *Node // Root.Name is ignored
	NoReadDirFile bool  // directories opened do not implement fs.ReadDirFile (fallback path of the walker)
	// NilEmptyListing makes ReadDir return a nil slice (not an empty one) for an empty directory,
	// which fs.ReadDirFS permits.
	NilEmptyListing bool
	// MaxBatch > 0 makes a directory handle's ReadDir(n) return at most MaxBatch entries per call.
	MaxBatch int
	Faults        map[string]error

	mu  sync.Mutex
	occ map[string]int
	// Log is every site reached, in order.
	Log []string
}

// New builds an FS over root.
func New(root *Node) *FS { return &FS{Root: root, occ: map[string]int{}} }

// Reset clears the site log and counters (the tree and fault table stay).
func (m *FS) Reset() { m.mu.Lock(); m.occ = map[string]int{}; m.Log = nil; m.mu.Unlock() }

// ErrInjectedIO is the generic non-permission fault.
var ErrInjectedIO = errors.New("injected I/O error")

// site registers that an operation site was reached and returns the injected error, if any.
func (m *FS) site(op, p string) error {
	m.mu.Lock()
	defer m.mu.Unlock()
	if m.occ == nil {
		m.occ = map[string]int{}
	}
	k := op + ":" + p
	s := fmt.Sprintf("%s#%d", k, m.occ[k])
	m.occ[k]++
	m.Log = append(m.Log, s)
	if e, ok := m.Faults[s]; ok {
		return &fs.PathError{Op: op, Path: p, Err: e}
	}
	return nil
}

// lookup resolves a slash path without following the final symlink.
func (m *FS) lookup(name string) (*Node, error) {
	if !fs.ValidPath(name) {
		return nil, fs.ErrInvalid
	}
	cur := m.Root
	if name == "." {
		return cur, nil
	}
	parts := strings.Split(name, "/")
	for i, part := range parts {
		if cur.Kind == Symlink {
			t, err := m.follow(cur, path.Join(parts[:i]...), 0)
			if err != nil {
				return nil, err
			}
			cur = t
		}
		if cur.Kind != Dir {
			return nil, fs.ErrNotExist
		}
		var next *Node
		for _, c := range cur.Children {
			if c.Name == part {
				next = c
				break
			}
		}
		if next == nil {
			return nil, fs.ErrNotExist
		}
		cur = next
	}
	return cur, nil
}

// follow resolves symlink n located at linkPath.
func (m *FS) follow(n *Node, linkPath string, depth int) (*Node, error) {
	for n.Kind == Symlink {
		if depth > 10 {
			return nil, errors.New("too many levels of symbolic links")
		}
		var tp string
		if strings.HasPrefix(n.Target, "/") {
			tp = path.Clean(strings.TrimPrefix(n.Target, "/"))
		} else {
			tp = path.Clean(path.Join(path.Dir(linkPath), n.Target))
		}
		if tp == "" {
			tp = "."
		}
		if strings.HasPrefix(tp, "..") {
			return nil, fs.ErrNotExist
		}
		t, err := m.lookup(tp)
		if err != nil {
			return nil, err
		}
		n, linkPath = t, tp
		depth++
	}
	return n, nil
}

func (m *FS) resolve(name string) (*Node, error) {
	n, err := m.lookup(name)
	if err != nil {
		return nil, err
	}
	return m.follow(n, name, 0)
}

type info struct {
	name string
	n    *Node
}

func (i info) Name() string               { return i.name }
func (i info) Size() int64 {
	if i.n.FakeSize != 0 {
		return i.n.FakeSize
	}
	return int64(len(i.n.Data))
}
func (i info) Mode() fs.FileMode          { return i.n.mode() }
func (i info) ModTime() time.Time         { return time.Unix(1_600_000_000, 0) }
func (i info) IsDir() bool                { return i.n.Kind == Dir }
func (i info) Sys() any                   { return nil }
func (i info) Type() fs.FileMode          { return i.n.mode().Type() }
func (i info) Info() (fs.FileInfo, error) { return i, nil }

// Stat follows symlinks like os.DirFS does.
func (m *FS) Stat(name string) (fs.FileInfo, error) {
	if err := m.site("stat", name); err != nil {
		return nil, err
	}
	n, err := m.resolve(name)
	if err != nil {
		return nil, &fs.PathError{Op: "stat", Path: name, Err: err}
	}
	return info{path.Base(name), n}, nil
}

// ReadDir lists a directory (entries sorted by name as fs.ReadDirFS requires; only
// used by the walker when directories do not implement ReadDirFile, and by extractors).
func (m *FS) ReadDir(name string) ([]fs.DirEntry, error) {
	if err := m.site("readdirfs", name); err != nil {
		return nil, err
	}
	n, err := m.resolve(name)
	if err != nil {
		return nil, &fs.PathError{Op: "readdir", Path: name, Err: err}
	}
	if n.Kind != Dir {
		return nil, &fs.PathError{Op: "readdir", Path: name, Err: errors.New("not a directory")}
	}
	out := make([]fs.DirEntry, 0, len(n.Children))
	for _, c := range n.Children {
		out = append(out, info{c.Name, c})
	}
	// a listing that fails part-way: fs.ReadDirFS allows returning the entries read so far
	// together with the error
	if err := m.site("readdirfs-mid", name); err != nil {
		return out[:len(out)/2], err
	}
	if len(out) == 0 && m.NilEmptyListing {
		return nil, nil
	}
	// NOTE: deliberately in listing order, not sorted: the listing order is the harness parameter.
	return out, nil
}

// Open opens a file or directory, following symlinks.
func (m *FS) Open(name string) (fs.File, error) {
	if err := m.site("open", name); err != nil {
		return nil, err
	}
	n, err := m.resolve(name)
	if err != nil {
		return nil, &fs.PathError{Op: "open", Path: name, Err: err}
	}
	if n.Kind == Dir {
		if m.NoReadDirFile {
			return &plainDir{m: m, name: name, n: n}, nil
		}
		return &dirFile{plainDir{m: m, name: name, n: n}, 0}, nil
	}
	return &file{m: m, name: name, n: n}, nil
}

type plainDir struct {
	m    *FS
	name string
	n    *Node
}

func (d *plainDir) Stat() (fs.FileInfo, error) {
	if err := d.m.site("fstat", d.name); err != nil {
		return nil, err
	}
	return info{path.Base(d.name), d.n}, nil
}
func (d *plainDir) Read([]byte) (int, error) {
	return 0, &fs.PathError{Op: "read", Path: d.name, Err: errors.New("is a directory")}
}
func (d *plainDir) Close() error { return nil }

type dirFile struct {
	plainDir
	off int
}

func (d *dirFile) ReadDir(n int) ([]fs.DirEntry, error) {
	if n <= 0 {
		var out []fs.DirEntry
		for d.off < len(d.n.Children) {
			if err := d.m.site("readdir", d.name); err != nil {
				return out, err
			}
			c := d.n.Children[d.off]
			out = append(out, info{c.Name, c})
			d.off++
		}
		return out, nil
	}
	if d.m.MaxBatch > 0 && n > d.m.MaxBatch {
		n = d.m.MaxBatch // a short batch: fs.ReadDirFile allows fewer than n entries without an error
	}
	var out []fs.DirEntry
	for len(out) < n {
		if d.off >= len(d.n.Children) {
			if len(out) == 0 {
				return nil, io.EOF
			}
			return out, nil
		}
		if err := d.m.site("readdir", d.name); err != nil {
			return out, err
		}
		c := d.n.Children[d.off]
		out = append(out, info{c.Name, c})
		d.off++
	}
	return out, nil
}

type file struct {
	m    *FS
	name string
	n    *Node
	off  int64
}

func (f *file) Stat() (fs.FileInfo, error) {
	if err := f.m.site("fstat", f.name); err != nil {
		return nil, err
	}
	return info{path.Base(f.name), f.n}, nil
}
func (f *file) Read(b []byte) (int, error) {
	if err := f.m.site("read", f.name); err != nil {
		return 0, err
	}
	if f.off < 0 {
		return 0, &fs.PathError{Op: "read", Path: f.name, Err: fs.ErrInvalid}
	}
	if f.off >= int64(len(f.n.Data)) {
		return 0, io.EOF
	}
	n := copy(b, f.n.Data[f.off:])
	f.off += int64(n)
	return n, nil
}
func (f *file) ReadAt(b []byte, off int64) (int, error) {
	if err := f.m.site("read", f.name); err != nil {
		return 0, err
	}
	if off < 0 {
		return 0, &fs.PathError{Op: "readat", Path: f.name, Err: fs.ErrInvalid}
	}
	if off >= int64(len(f.n.Data)) {
		return 0, io.EOF
	}
	n := copy(b, f.n.Data[off:])
	if n < len(b) {
		return n, io.EOF
	}
	return n, nil
}
func (f *file) Seek(off int64, whence int) (int64, error) {
	n := f.off
	switch whence {
	case io.SeekStart:
		n = off
	case io.SeekCurrent:
		n += off
	case io.SeekEnd:
		n = int64(len(f.n.Data)) + off
	default:
		return 0, &fs.PathError{Op: "seek", Path: f.name, Err: fs.ErrInvalid}
	}
	if n < 0 {
		// like os.File: a negative resulting offset is EINVAL and the offset is unchanged
		return 0, &fs.PathError{Op: "seek", Path: f.name, Err: fs.ErrInvalid}
	}
	f.off = n
	return f.off, nil
}
func (f *file) Close() error { return nil }

// Walk calls fn for every node below root (not the root itself) with its slash path.
func Walk(root *Node, fn func(p string, n *Node)) {
	var rec func(prefix string, n *Node)
	rec = func(prefix string, n *Node) {
		for _, c := range n.Children {
			p := c.Name
			if prefix != "" {
				p = prefix + "/" + c.Name
			}
			fn(p, c)
			if c.Kind == Dir {
				rec(p, c)
			}
		}
	}
	rec("", root)
}

// Permutations returns all permutations of 0..n-1 in lexicographic order.
func Permutations(n int) [][]int {
	var out [][]int
	p := make([]int, n)
	for i := range p {
		p[i] = i
	}
	var rec func(k int)
	rec = func(k int) {
		if k == n {
			out = append(out, append([]int{}, p...))
			return
		}
		for i := k; i < n; i++ {
			p[k], p[i] = p[i], p[k]
			rec(k + 1)
			p[k], p[i] = p[i], p[k]
		}
	}
	rec(0)
	return out
}
