// Package imgkit builds container images in memory (tar layers + a light v1.Image)
// and holds the independent OCI overlay reference model used by C04, C05, C10, C17.
package imgkit

import (
	"archive/tar"
	"bytes"
	"crypto/sha256"
	"encoding/hex"
	"errors"
	"fmt"
	"io"
	"path"
	"sort"
	"strings"

	v1 "github.com/google/go-containerregistry/pkg/v1"
	"github.com/google/go-containerregistry/pkg/v1/empty"
	"github.com/google/go-containerregistry/pkg/v1/mutate"
	"github.com/google/go-containerregistry/pkg/v1/tarball"
	"github.com/google/go-containerregistry/pkg/v1/types"
)

// Entry is one tar entry.
type Entry struct {
	Name string `json:"name"`
	Kind string `json:"kind"` // "file", "dir", "symlink", "hardlink"
	Data string `json:"data,omitempty"`
	Link string `json:"link,omitempty"`
	Mode int64  `json:"mode,omitempty"`
	// Implied (models only, never written to a tar stream): a directory that exists because
	// something below it does; it defines no metadata.
	Implied bool `json:"-"`
}

func (e Entry) String() string {
	switch e.Kind {
	case "dir":
		return e.Name + "/"
	case "symlink":
		return e.Name + "->" + e.Link
	case "hardlink":
		return e.Name + "=>" + e.Link
	}
	return fmt.Sprintf("%s=%q", e.Name, e.Data)
}

// File, Dir, Sym are entry constructors.
func File(name, data string) Entry { return Entry{Name: name, Kind: "file", Data: data, Mode: 0o644} }

// Dir makes a directory entry.
func Dir(name string) Entry { return Entry{Name: name, Kind: "dir", Mode: 0o755} }

// Sym makes a symlink entry.
func Sym(name, target string) Entry {
	return Entry{Name: name, Kind: "symlink", Link: target, Mode: 0o777}
}

// Whiteout makes the whiteout entry deleting p.
func Whiteout(p string) Entry {
	return Entry{Name: path.Join(path.Dir(p), ".wh."+path.Base(p)), Kind: "file", Mode: 0o644}
}

// Opaque makes the opaque marker for directory d.
func Opaque(d string) Entry {
	return Entry{Name: path.Join(d, ".wh..wh..opq"), Kind: "file", Mode: 0o644}
}

// TarBytes serialises entries in order.
func TarBytes(entries []Entry) []byte {
	var buf bytes.Buffer
	tw := tar.NewWriter(&buf)
	for _, e := range entries {
		h := &tar.Header{Name: e.Name, Mode: e.Mode, Format: tar.FormatPAX}
		switch e.Kind {
		case "dir":
			h.Typeflag = tar.TypeDir
			if !strings.HasSuffix(h.Name, "/") {
				h.Name += "/"
			}
		case "symlink":
			h.Typeflag = tar.TypeSymlink
			h.Linkname = e.Link
		case "hardlink":
			h.Typeflag = tar.TypeLink
			h.Linkname = e.Link
		default:
			h.Typeflag = tar.TypeReg
			h.Size = int64(len(e.Data))
		}
		if err := tw.WriteHeader(h); err != nil {
			panic(err)
		}
		if h.Typeflag == tar.TypeReg {
			_, _ = tw.Write([]byte(e.Data))
		}
	}
	_ = tw.Close()
	return buf.Bytes()
}

// Hist is one config history entry.
type Hist struct {
	CreatedBy string `json:"created_by"`
	Empty     bool   `json:"empty,omitempty"`
}

type layer struct {
	data []byte
	diff v1.Hash
}

func (l *layer) Digest() (v1.Hash, error)             { return l.diff, nil }
func (l *layer) DiffID() (v1.Hash, error)             { return l.diff, nil }
func (l *layer) Compressed() (io.ReadCloser, error)   { return io.NopCloser(bytes.NewReader(l.data)), nil }
func (l *layer) Uncompressed() (io.ReadCloser, error) { return io.NopCloser(bytes.NewReader(l.data)), nil }
func (l *layer) Size() (int64, error)                 { return int64(len(l.data)), nil }
func (l *layer) MediaType() (types.MediaType, error)  { return types.DockerUncompressedLayer, nil }

// Image is a light v1.Image: only Layers and ConfigFile are meaningful.
type Image struct {
	layers  []v1.Layer
	history []v1.History
	noCfg   bool
}

// DiffID returns the "sha256:..." diff id of layer i.
func (im *Image) DiffID(i int) string {
	h, _ := im.layers[i].DiffID()
	return h.String()
}

// NewImage builds an image from raw layer tars. history == nil means the config
// has no history; see NoConfig for a missing config.
func NewImage(layers [][]byte, history []Hist) *Image {
	im := &Image{}
	for _, b := range layers {
		s := sha256.Sum256(b)
		im.layers = append(im.layers, &layer{data: b, diff: v1.Hash{Algorithm: "sha256", Hex: hex.EncodeToString(s[:])}})
	}
	for _, h := range history {
		im.history = append(im.history, v1.History{CreatedBy: h.CreatedBy, EmptyLayer: h.Empty})
	}
	return im
}

// NoConfig makes ConfigFile fail.
func (im *Image) NoConfig() *Image { im.noCfg = true; return im }

var errNI = errors.New("imgkit: not implemented")

// Layers implements v1.Image.
func (im *Image) Layers() ([]v1.Layer, error) { return im.layers, nil }

// MediaType implements v1.Image.
func (im *Image) MediaType() (types.MediaType, error) { return types.DockerManifestSchema2, nil }

// Size implements v1.Image.
func (im *Image) Size() (int64, error) { return 0, errNI }

// ConfigName implements v1.Image.
func (im *Image) ConfigName() (v1.Hash, error) { return v1.Hash{}, errNI }

// ConfigFile implements v1.Image.
func (im *Image) ConfigFile() (*v1.ConfigFile, error) {
	if im.noCfg {
		return nil, errors.New("no config")
	}
	return &v1.ConfigFile{History: im.history}, nil
}

// RawConfigFile implements v1.Image.
func (im *Image) RawConfigFile() ([]byte, error) { return nil, errNI }

// Digest implements v1.Image.
func (im *Image) Digest() (v1.Hash, error) { return v1.Hash{}, errNI }

// Manifest implements v1.Image.
func (im *Image) Manifest() (*v1.Manifest, error) { return nil, errNI }

// RawManifest implements v1.Image.
func (im *Image) RawManifest() ([]byte, error) { return nil, errNI }

// LayerByDigest implements v1.Image.
func (im *Image) LayerByDigest(v1.Hash) (v1.Layer, error) { return nil, errNI }

// LayerByDiffID implements v1.Image.
func (im *Image) LayerByDiffID(v1.Hash) (v1.Layer, error) { return nil, errNI }

// RealImage builds the same image with go-containerregistry's own types (can be
// saved with tarball.WriteToFile and is accepted by mutate.Extract).
func RealImage(layers [][]byte, history []Hist) (v1.Image, error) {
	img := empty.Image
	li := 0
	add := func(b []byte, h v1.History) error {
		l, err := tarball.LayerFromOpener(func() (io.ReadCloser, error) { return io.NopCloser(bytes.NewReader(b)), nil })
		if err != nil {
			return err
		}
		img, err = mutate.Append(img, mutate.Addendum{Layer: l, History: h})
		return err
	}
	if history == nil {
		for _, b := range layers {
			if err := add(b, v1.History{}); err != nil {
				return nil, err
			}
		}
		return img, nil
	}
	for _, h := range history {
		if h.Empty {
			var err error
			img, err = mutate.Append(img, mutate.Addendum{History: v1.History{CreatedBy: h.CreatedBy, EmptyLayer: true}})
			if err != nil {
				return nil, err
			}
			continue
		}
		if li >= len(layers) {
			return nil, errors.New("history has more non-empty entries than layers")
		}
		if err := add(layers[li], v1.History{CreatedBy: h.CreatedBy}); err != nil {
			return nil, err
		}
		li++
	}
	for ; li < len(layers); li++ {
		if err := add(layers[li], v1.History{}); err != nil {
			return nil, err
		}
	}
	return img, nil
}

// ---------------------------------------------------------------------------
// OCI overlay reference model
// ---------------------------------------------------------------------------

// MNode is a node of the model file system.
type MNode struct {
	Kind   string // "file", "dir", "symlink"
	Data   string
	Mode   int64
	Target string // symlink target as written in the layer
	// Explicit: a directory that some layer named in an entry of its own (its mode is then
	// defined); false for directories that only exist as implied parents of deeper entries.
	Explicit bool
}

// Model is path ("a/b", no leading slash; "" is the root) -> node.
type Model map[string]*MNode

// Clone copies the model.
func (m Model) Clone() Model {
	c := Model{}
	for k, v := range m {
		n := *v
		c[k] = &n
	}
	return c
}

// CleanName normalises a tar entry name the way OCI tools do: strips "./" and a
// leading "/", cleans. Returns "" for the root itself.
func CleanName(n string) string {
	c := path.Clean("/" + n)
	return strings.TrimPrefix(c, "/")
}

func (m Model) removeSubtree(p string) {
	for k := range m {
		if k == p || strings.HasPrefix(k, p+"/") {
			delete(m, k)
		}
	}
}

func (m Model) removeChildren(p string) {
	for k := range m {
		if p == "" && k != "" || p != "" && strings.HasPrefix(k, p+"/") {
			delete(m, k)
		}
	}
}

func (m Model) ensureParents(p string) {
	// top-down, so that replacing a non-directory ancestor cannot remove a deeper
	// ancestor that was just created
	parts := strings.Split(p, "/")
	for i := 1; i < len(parts); i++ {
		d := strings.Join(parts[:i], "/")
		if n, ok := m[d]; !ok || n.Kind != "dir" {
			if ok {
				m.removeSubtree(d)
			}
			m[d] = &MNode{Kind: "dir", Mode: 0o755}
		}
	}
}

// Apply returns the model after applying one layer on top (OCI image-spec
// "Applying changesets"): whiteouts first (they only affect lower layers), then
// the layer's own entries in any order.
func (m Model) Apply(entries []Entry) Model {
	out := m.Clone()
	if _, ok := out[""]; !ok {
		out[""] = &MNode{Kind: "dir", Mode: 0o755}
	}
	// phase 1: whiteouts act on what lower layers provided
	for _, e := range entries {
		name := CleanName(e.Name)
		base := path.Base(name)
		dir := path.Dir(name)
		if dir == "." {
			dir = ""
		}
		if base == ".wh..wh..opq" {
			out.removeChildren(dir)
			continue
		}
		if strings.HasPrefix(base, ".wh.") {
			out.removeSubtree(path.Join(dir, strings.TrimPrefix(base, ".wh.")))
		}
	}
	// phase 2: additions and replacements
	for _, e := range entries {
		name := CleanName(e.Name)
		if name == "" {
			continue
		}
		base := path.Base(name)
		if strings.HasPrefix(base, ".wh.") {
			continue
		}
		out.ensureParents(name)
		old, had := out[name]
		switch e.Kind {
		case "dir":
			if e.Implied {
				if !had || old.Kind != "dir" {
					out.removeSubtree(name)
					out[name] = &MNode{Kind: "dir", Mode: 0o755}
				}
			} else if had && old.Kind == "dir" {
				old.Mode = e.Mode
				old.Explicit = true
			} else {
				out.removeSubtree(name)
				out[name] = &MNode{Kind: "dir", Mode: e.Mode, Explicit: true}
			}
		case "symlink":
			out.removeSubtree(name)
			out[name] = &MNode{Kind: "symlink", Mode: e.Mode, Target: e.Link}
		case "file":
			out.removeSubtree(name)
			out[name] = &MNode{Kind: "file", Data: e.Data, Mode: e.Mode}
		}
	}
	return out
}

// Paths returns the sorted paths of the model (without the root).
func (m Model) Paths() []string {
	var ps []string
	for k := range m {
		if k != "" {
			ps = append(ps, k)
		}
	}
	sort.Strings(ps)
	return ps
}

// Children lists the sorted base names of the entries directly under dir.
func (m Model) Children(dir string) []string {
	var out []string
	for k := range m {
		if k == "" {
			continue
		}
		d := path.Dir(k)
		if d == "." {
			d = ""
		}
		if d == dir {
			out = append(out, path.Base(k))
		}
	}
	sort.Strings(out)
	return out
}

func (m Model) String() string {
	var b strings.Builder
	for _, p := range m.Paths() {
		n := m[p]
		switch n.Kind {
		case "dir":
			fmt.Fprintf(&b, "%s/ ", p)
		case "symlink":
			fmt.Fprintf(&b, "%s->%s ", p, n.Target)
		default:
			fmt.Fprintf(&b, "%s=%q ", p, n.Data)
		}
	}
	return strings.TrimSpace(b.String())
}
