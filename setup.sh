#!/bin/bash
# Offline setup after a fresh restore: refresh go.sum from /repo and pre-build every check binary.
set -u
cd "$(dirname "$0")"
export GOFLAGS=-mod=mod GOPROXY=off
cp /repo/go.sum harness/go.sum
mkdir -p bin evidence
rc=0
for d in harness/cmd/*/; do
  id=$(basename "$d")
  if [ -x "$d/build.sh" ]; then
    (cd harness && "cmd/$id/build.sh" "$PWD/../bin" "$PWD/../bin/$id") >"bin/$id.build.log" 2>&1 || { echo "setup: build of $id failed"; cat "bin/$id.build.log"; rc=1; }
  else
    (cd harness && go build -tags verif -o "../bin/$id" "./cmd/$id") >"bin/$id.build.log" 2>&1 || { echo "setup: build of $id failed"; cat "bin/$id.build.log"; rc=1; }
  fi
done
exit $rc
